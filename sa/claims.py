"""Per-property claims (level, note, technique). Imported by registry.build()."""

from .registry import claim

TB = "CPython ast; sa/poly.py (polynomial identity by cross-multiplication over Q(i)); sa/absint.py (abstract interpreter: my encoding of the Python subset and of the jnp primitives used at the anchors); oracles transcribed from the property statement / docstrings"

claim(
    "C41",
    "proof",
    "Real-number identities and range facts proved for all inputs: period*frequency=1 and wavelength=c*period on every input path of WaveCharacter; |amplitude|<=1 for CW and Gaussian profiles, ramp in [0,1] non-decreasing from 0; custom-signal interpolation formula, outside value and exact reproduction at sample times. Every obligation is an algebraic identity or interval entailment discharged by the analyser on the current source. Floating-point rounding is not decided.",
    TB + "; sa/ranges.py interval+derivative domain; parameters in a bounded positive box (1e-30..1e30)",
    "abstract interpretation of the anchored functions into rational normal forms and intervals; identity by polynomial cross-multiplication",
    "DESIGN.md §5 C41",
)

claim(
    "C07",
    "other",
    "Decides the continue-predicate of every StoppingCondition subclass exhaustively as a boolean function (full truth table over its comparison leaves and one opaque 'converged' atom, extracted by abstract interpretation of __call__): continue implies t<max_steps, t<min_steps within bounds implies continue, otherwise continue iff not converged; and that the run loop in checkpointed_fdtd is bounded by time_steps_total, starts at 0, uses the set-up condition as cond_fun and the plain forward step as body. What the conditions measure: the energy threshold sums compute_energy(E, H, inverse permittivity, inverse permeability) in that order; the convergence test transforms the sample-wise mean of the prev_periods periods [t - (k+1) spp, t - spp) and the last period [t - spp, t) of the detector trace (five settings, every reading a free symbol). The spectra / norm arithmetic and state equality with a plain run are not decided.",
    TB + "; model of eqxi.while_loop as a recorded call; model of lax.cond as select",
    "abstract interpretation of __call__ to a boolean formula + exhaustive truth-table comparison; recorded-call extraction of the loop",
    "DESIGN.md §5 C07",
)

claim(
    "C29",
    "other",
    "Decides the overlap predicate for every integer input: check_overlap only compares the eight slice endpoints (checked by a dataflow scan), so evaluating it on one representative of each of the 13^3 combinations of per-axis order types (Allen relations) is exhaustive; oracle: a true 3-D half-open intersection must yield True. Also decides that place_objects applies an object iff no device overlaps it and apply_params re-applies iff one does (same receiver/argument orientation), after the device loop and against the current material arrays. Behaviourally: apply_params interpreted end to end with two devices and three other objects re-applies exactly those overlapping some device (the first as well as the last), once each, and every material-state argument (incl. the c4 coefficients when allocated) is the array the function returns. What apply() computes is not decided. The re-apply gate is exercised through the repo's own predicate on concrete stand-in boxes (objects flush against the first device along x and along z, one sharing cells with the last device, one entirely inside it, one containing it, one separated): the flush, the overlapping, the contained and the containing objects are re-applied once each with the returned arrays, the separated one is not.",
    TB + "; exhaustiveness rests on the comparison-only dataflow check",
    "finite order-type (region) enumeration by abstract interpretation + syntax-tree rules on the two call sites",
    "DESIGN.md §5 C29",
)

claim(
    "C17",
    "other",
    "Decides, for every update() body in the PhasorDetector family (base class and each override found through the class index), that each stored entry grows per step by exactly component*exp(+i*2*pi*f*step*dt)*scale*window[step] (subtracted for inverse detectors), with scale=2/sum(window) or the stride; the component selector table; the construction of window and window sum in place_on_grid; stride thinning of the on-list (exhaustive for lists up to length 7, strides 1..4); and the phasor Poynting post-processing Re(E x H*), direction sign, component selection and the 1/2 factor in continuous mode only. All by abstract interpretation on symbolic fields with every unspecified detector attribute symbolic, so an extraneous factor shows up. Floating-point accumulation error is not decided. The plane and the closed surface of the Poynting variants, composed from C16's rules: the propagation-axis decision table of the phasor classes (axis 0 included) and compute_net_flux of the closed-surface detector for one and two frequencies — each frequency's net flux is its own signed face sum, not the sum over frequencies.",
    TB + "; sa/ndarr.py broadcasting/indexing model of the jnp subset; state arrays adopt the shape of what is accumulated into them",
    "abstract interpretation to rational normal forms over an n-d array domain; factor-quotient test per entry",
    "DESIGN.md §5 C17",
)

claim(
    "C19",
    "other",
    "Decides on a symbolic voxel array of symbolic shape: the straight-through estimator returns the discrete value with derivative exactly 1 w.r.t. the continuous input and 0 w.r.t. the discrete one; the integer branch is clip(round(x),0,M-1) for M in {2,3,5}; the isotropic inverse-permittivity branch returns per voxel argmin_m |x-1/eps_m| over the materials in library order and keeps the input shape (the shape domain never unifies a symbolic spatial size with the material count). A cast of the estimator's result to the dtype of the discrete argument (integer indices in the argmin branch) would cut the gradient and is kept visible as an opaque term, so the derivative rule sees it. Tie-breaking and float rounding are not decided.",
    TB + "; sa/ndarr.py broadcasting model; dual reading of stop_gradient (frozen atoms)",
    "abstract interpretation over a symbolic-shape array domain; symbolic differentiation of the normal form",
    "DESIGN.md §5 C19",
)

claim(
    "C23",
    "other",
    "Decides structural necessary conditions of 'keeps exactly the connected material': the dilation kernels are the 6-connectivity cross in all three planes, each plane dilation is masked by the material (complement for air) so the front cannot leave it, the seed is the bottom layer, the final selection equals material AND connected on its whole truth table and is mapped back to material indices for both background positions, and the flood-fill loop either iterates to a fixpoint or has a trip count of total degree 3 in the grid dimensions (anything lower cuts serpentine paths short; the trip-count expression is extracted symbolically). The air fill starts from exactly the air cells of the four side faces and the top (three concrete designs), and the fixpoint loop continues exactly while the front differs from the previous one as a set of cells (equal sizes are not convergence). Outcomes of connect_holes_and_structures on particular designs are not decided.",
    TB + "; geodesic-length argument for the iteration bound (a face-connected path in X*Y*Z cells can have Theta(X*Y*Z) length)",
    "abstract interpretation with recorded loop calls; degree domain on the trip count; boolean truth tables",
    "DESIGN.md §5 C23",
)

claim(
    "C01",
    "other",
    "Decides, by abstract interpretation of the kernel on symbolic fields over a stencil domain, the structural skeleton that makes the scheme conservative: curl_E/curl_H equal the Levi-Civita curl with forward/backward one-cell differences (mutual adjoints), each derivative carries the metric of its own axis and stencil and the backward metric is the dual width with the first cell replicated, halos are one cell wide and wrap exactly on periodic axes, Bloch ghosts are phase/conj(phase)=exp(+-ikL), PEC/PMC zero exactly the tangential components on their slab at the end of their own half step, update_E/update_H equal the semi-implicit normal forms on every isotropic/diagonal x lossy/lossless path with a contractive loss factor, and forward() steps E then H with H_prev taken before. The Bloch ghost rule covers all three components and, on a resolved (stretched) grid, requires both ghost layers to use the period edges[N] - edges[0]. The summation-by-parts identity behind exact conservation is decided on concrete cells: with curl_E / curl_H interpreted on a 3x2x2 grid (uniform and stretched; all-periodic, mixed periodic / truncated) over free field and cell-width symbols, sum V_H H . curl_E(E) == sum V_E E . curl_H(H) coefficient by coefficient, V the primal / dual Yee volumes with the dual width wrapping on periodic axes (R1.8). The full-tensor averaging, lossy energy decay rates and round-off are not decided.",
    TB + "; sa/ndarr.py stencil/array model (slices, pad, roll, concatenate, at[].set/add as indicator algebra); oracle = definition of the discrete curl and Schneider's semi-implicit loss factor",
    "abstract interpretation over a stencil (shifted-atom) array domain; polynomial identity against the Levi-Civita oracle",
    "DESIGN.md §5 C01",
)

claim(
    "C02",
    "other",
    "Decides, as polynomial identities over the reals extended by symbolic atoms, that the composition backward(forward(state)) computed by the abstract interpreter from the current source returns the initial E, H and step counter, on every path the property names: isotropic/diagonal materials x {lossless, electric loss, magnetic loss, both}, scalar permeability, fully anisotropic lossless tensors, zero/periodic halos, Bloch phases on complex fields, PEC/PMC walls on every axis (initial state projected with the repo's own wall hooks), non-uniform metric scales, always-on and scheduled sources with opaque switch/time map. Sources are abstract in that composition (F + sign*J(time argument)); that every exported source class has this form (additive .at[].add, one inverse-controlled sign factor, magnitude and region independent of the field and of `inverse`, no inverse-controlled return) is decided per class by a def-use rule on update_E/update_H and their helpers. Lossy full tensors: compute_anisotropic_update_matrices / _reverse are interpreted with an exact 3x3 solve on symbolic tensors (diagonal; symmetric inverse tensor with isotropic conductivity; isotropic inverse tensor with full conductivity; thorough: general 9+9 entries) and must satisfy A_r A = 1 and A_r B = B_r per cell. Full permittivity / permeability tensors next to a Bloch face with a symbolic wave vector round-trip as well (the ghost layer read by the off-diagonal averages carries the phase in the forward and in the reverse update). Round-off, temporal-profile values and the off-diagonal spatial averaging of lossy full tensors are not decided.",
    TB + "; sa/ndarr.py stencil/indicator array model; abstract source and lax.cond-as-select models; sa/srcflow.py flow-insensitive def-use closure (control dependences included); non-uniform scenarios use one opaque metric atom per (axis, stencil)",
    "abstract interpretation of forward() then backward() to rational normal forms over a stencil domain, identity by cross-multiplication; syntax-tree def-use (taint) rule for the source classes",
    "DESIGN.md §5 C02",
)

claim(
    "C21",
    "proof",
    "For every symmetry transform class in the symmetries module and every option value, __call__ interpreted on arrays of free symbolic entries equals (v + g.v)/2 entry-wise (polynomial identity), g being the documented reflection / rotation / transposition and an involution; invariance under g, idempotence, unchanged symmetric inputs and mean preservation are checked on the extracted output as well. Layouts: 2-D designs with the singleton axis in each position (square where required), 3-D boxes incl. a cube. Holds for all real inputs of those shapes; extrapolation to other sizes rests on the size-uniformity of flips/transposes. With three parameter arrays under non-alphabetical keys every key gets the symmetrisation of its own array back. Exactness in floating point is decided structurally: the stored mean of every transform is an expression in the array and its image that is unchanged by swapping the two up to commutativity of + and * alone, so an entry and its mirror entry are the same floating-point computation; other rounding questions are not decided.",
    TB + "; sa/ndarr.py model of squeeze/expand_dims/reversed slices/.T/jnp.flip/jnp.transpose on concrete-shape arrays",
    "abstract interpretation on arrays of free symbols; entry-wise polynomial identity against the documented index-group element",
    "DESIGN.md §5 C21",
)

claim(
    "C08",
    "other",
    "Decides axis-relabelling equivariance of the solver code: one forward and one backward step of forward()/backward() are abstractly interpreted on scenes invariant under x->y->z->x (every material tier incl. full tensors, both conductivities, non-uniform metric atoms, CPML layers on the three min or max faces with kappa=1 and kappa!=1, PEC/PMC walls and periodic faces on all axes, abstract sources) and output component sigma(c), and each CPML memory variable of layer sigma(p), is compared as a polynomial identity with the relabelled form of component c / layer p; likewise the TFSF face injections of TFSFPlaneSource.update_E/update_H over 3 axes x 2 directions x forward/inverse x material tiers (real and complex incident fields), the Bloch ghost-cell correction, the oriented transverse-axis helper, the PEC/PMC hooks and the absorbing layers' interface slices. The material arrays the step works on are filled component-covariantly (each object's own xx / yy / zz entry of each property in the slot of the same index: C28's painting rule on three tiered scenes, R8.7). The Yee sample-offset table and the per-component source delays of calculate_time_offset_yee (three plane orientations, stretched edges) are relabelling-covariant. Equality of whole runs up to round-off, detectors and the rest of source-profile construction are not decided.",
    TB + "; sa/sigma.py axis relabelling of atoms; sa/ndarr.py stencil/indicator array model; abstract source model of C02; jnp clamped out-of-bounds reads modelled only for isotropic (1,...) material arrays",
    "abstract interpretation of one solver step to rational normal forms over a stencil domain; sibling comparison under the axis-relabelling group action (polynomial identity)",
    "DESIGN.md §5 C08",
)

claim(
    "C10",
    "other",
    "Decides the algebraic form linearity needs. Sources: update_E/update_H of every exported source class are abstractly interpreted (plane TFSF over 3 axes x material tiers x real/complex incident fields x raw/filtered H profile x direction/inverse; the box source over several faces; the point dipole over type x polarisation x tilt x tiers x sampled/unsampled medium) and the injected increment must be homogeneous of degree exactly 1 in static_amplitude_factor and of degree 0 in the fields; a def-use rule shows the additive .at[].add form per class. Solver: every output of one forward step (E, H, CPML memory) on symbolic scenes (tiers, losses, full tensors, metric, CPML, walls, periodic) is homogeneous of degree 1 jointly in (E, H, psi, source terms), and the coefficient of each source's term is free of every other source's term and on/off indicator, for three source orders mixing default and scheduled switches. Detectors: field and phasor records have degree 1, energy and Poynting records degree exactly 2 in (E, H). Who-may-read: static_amplitude_factor is read only in update_E / update_H of sources and in the face-injection helpers they call, so profiles, normalisation and temporal profiles cannot depend on it and each injection carries it exactly once. Round-off over many steps is not decided.",
    TB + "; sa/degree.py degree domain (abs/real/imag/conj positively homogeneous, other opaque functions of the fields non-polynomial); sa/tfsf.py source harness; abstract source model of C02 in the solver step",
    "abstract interpretation to rational normal forms + degree (homogeneity) domain; symbolic derivative for cross-source independence; syntax-tree def-use rule",
    "DESIGN.md §5 C10",
)

claim(
    "C16",
    "other",
    "Decides the reduction formulas by interpreting every detector update() twice on arrays of free symbolic entries (fields, cell-volume and face-area weights) for several concrete region shapes incl. size-one axes, resolved and reduced, and comparing the reduced record as a polynomial identity with the weighted mean / sum formed from the resolved record: field and phasor records = sum(v*w)/sum(w) per frequency and component; energy = sum(density*w) with density = 1/2 sum_c(|E_c|^2/inv_eps_c+|H_c|^2/inv_mu_c); Poynting record = E x conj(H), reduced = sum(S*area), '-' negates, single component = propagation component; closed surface = sum over active axes of (+last - first face) of S_a*area_a, 'inward' negates; inverse phasor detectors subtract what forward ones add; propagation-axis decision tables (fixed axis incl. 0 / unique size-one axis / error); face-area weight helper on resolved and uniform grids; every update override in the phasor family (closed surface, field projection) subtracts when inverse exactly the term it adds when forward; the closed-surface phasor detector's net flux sums, over its active axes (every subset), max face minus min face of S_a times the face-area weights of that same axis. With all components kept, place_on_grid of the two plane Poynting detectors builds a (3, *region) weight array whose entry a is the face-area array of axis a broadcast over the region (R16.7: the all-component record exists and weights component a like the single-component record of axis a). Holds for all inputs of the interpreted shapes; summation order / round-off not decided.",
    TB + "; sa/ndarr.py model of sum/mean/take/reshape/cross/stack on concrete-shape arrays; size-uniformity of those reductions",
    "abstract interpretation on concrete-shape arrays of free symbols; polynomial identity between reduced and resolved records; finite decision tables",
    "DESIGN.md §5 C16",
)

claim(
    "C26",
    "other",
    "Decides what each constraint applier of the placement solver writes, per axis / side / option value, by abstract interpretation against an opaque recording grid: size constraint -> cells(axis, extent(other_axis, other's slice on other_axis)*proportion + offset + grid_offset*spacing); position constraint -> bounds_for_anchor(axis, own size, anchor(axis, other's slice on axis, other_pos) + margin + grid_margin*spacing, own_pos); extension -> snapped anchor of the other object or the volume face of that direction, other side untouched; grid/real coordinate constraints -> given edge on the stated side; shape<->slice bookkeeping b1-b0=size. Set-once discipline per applier on three slot states (empty -> written, equal -> untouched and no error, different -> error, never overwritten). Final validation accepts exactly v1<=s1<s2<=v2 (exhaustive over order types of four integers per axis) and flags unresolved bounds; appliers' exceptions become error entries, every constraint class has its dispatch arm, place_objects raises on any error; extension to the volume writes only 0 / volume size into empty slots. Snapping arithmetic inside the grid helpers is not decided here (C37).",
    TB + "; opaque recording grid (geometric helpers as uninterpreted functions); finite option tables with concrete non-trivial margins/offsets",
    "abstract interpretation of the constraint appliers against uninterpreted grid functions; finite-state set-once typestate check; exhaustive order-type enumeration; syntax-tree dispatch/guard rules",
    "DESIGN.md §5 C26",
)

claim(
    "C27",
    "other",
    "Narrow: confluence of the placement fixpoint is not decided. Decided are the clauses order-independence rests on: every applier and both bookkeeping passes obey the set-once discipline (empty -> written, equal -> untouched, different -> error, never an overwrite), so a slot's final value cannot depend on which constraint reached it first; extension to the volume and the unresolved-object handler are reached only after a sweep that changed nothing; the sweep over constraints has no break/return/continue and catches applier exceptions without ending; _extend_to_inf_if_possible returns identical slices under every permutation of the object map and the constraint list on three small systems (extension constraints both ways, pending and resolved position constraints, size-only objects). The position applier — the one applier that writes two slots — is confluent in its own slots: with either bound already holding the agreeing value it raises nothing, fills the other and reports progress (R27.4, every axis and margin form).",
    TB + "; opaque recording grid of C26; syntax-tree guard extraction for the fixpoint loop",
    "finite-state set-once typestate check by abstract interpretation; syntax-tree control-dependence rules; permutation enumeration by abstract interpretation",
    "DESIGN.md §5 C27",
)

claim(
    "C28",
    "other",
    "Decides the assembly of the static material arrays by abstract interpretation of _init_arrays up to the end of its placement loop on scenes of uniform-material boxes with symbolic, arbitrarily overlapping grid slices, concrete placement orders (ties, out-of-order listing) and concrete rational material tensors of every tier, built through Material.__init__ with tier flags computed by the repo's own container / material predicates. Per array the component count and, per component, the cell value as a polynomial in the boxes' region indicators are compared with the oracle: paint in ascending placement order, list order breaking ties, volume first, with 1/eps, 1/mu (3x3 inverse in the 9-tier) or sigma*c*dt/courant of each object's own tensor; count = widest tier any material needs; scalar 1 for a non-magnetic scene; no conductivity array for a lossless scene; container predicates consult the Material predicate of the same name. Exact for every overlap pattern at once. The statement that sorts the static objects, interpreted on four mixed lists of uniform and multi-material objects, orders by placement order alone with list order breaking ties; _invert_property is the entry-wise reciprocal on the 1- / 3-component tiers and the row-major matrix inverse of a general non-symmetric tensor on the 9-component tier (M inv = 1 as an identity in nine free entries). Multi-material voxel masks and sub-pixel smoothing are not decided. Shaped objects: get_material_mapping of every single-material shape (cylinder, sphere, polygon, GDS stack) interpreted over all insertion orders of the dictionary gives the index in the property-sorted order of the allowed-value tables (R28.8); the StaticMultiMaterialObject branch of the placement loop, interpreted on a two-cell object with symbolic mask fractions and distinct material indices, moves each of the four arrays towards the voxel's own material's value from the table of that array's own kind and leaves the cell outside the slice alone (R28.9).",
    TB + "; sa/ndarr.py indicator algebra for .at[region].set; prefix slicing of _init_arrays at the end of the placement loop; models of create_named_sharded_matrix / sharding_preserving_set",
    "abstract interpretation of a function prefix over an indicator-algebra array domain; polynomial identity against a painter's-order oracle; syntax-tree sibling-name rule",
    "DESIGN.md §5 C28",
)

claim(
    "C32",
    "other",
    "Decides the unfolding code on arrays of free symbolic entries: the 36-entry parity table equals the image-field rule (electric wall: normal E / tangential H even, tangential E / normal H odd; magnetic wall opposite) and the on-plane table equals the Yee staggering; unfold_fields for all 26 symmetry tuples x {E,H} keeps the input as upper half and fills the lower half with parity*kept[mirror(index)] (n-1-j off-plane, n-j on-plane with the outermost sample repeating its neighbour); unfold_array with signs and on-plane axes; _unfold_one_detector for field, phasor, energy and Poynting detectors, spatial records with and without co-location, where each unfolded row must carry the parity of the component that row actually holds (read off the record's own atoms); and for reduced records unfolding the reduced value equals reducing the unfolded spatial record (mean for field/phasor, sum for energy/Poynting) with 1, 2 and 3 touched planes of either kind. unfold_detector_states hands each detector touched[a] = symmetry[a] on exactly the axes whose plane clipped it and count = the number of those axes (26 symmetries x 8 crossing patterns), returns detectors that cross no plane and orphan states as stored. Which detectors straddle a plane (the geometric predicate), and round-off, are not decided.",
    TB + "; sa/ndarr.py model of flip / concatenate / reshape / broadcasting on concrete-shape arrays; size-uniformity of those index maps",
    "finite decision tables by abstract interpretation; abstract interpretation on arrays of free symbols with entry-wise polynomial identity against the documented mirror index map",
    "DESIGN.md §5 C32",
)

claim(
    "C35",
    "proof",
    "Identities over the reals / Gaussian rationals for all pole parameters, time steps and frequencies: compute_pole_coefficients_per_axis and _tensor (per-axis and oriented rows) interpreted on a pole with symbolic per-axis (w0, g, a, b) return the documented c1..c4 on every accepting path (tensor entries on diagonal slots 4*axis, zero off-diagonal, oriented K dt^2/D u u^T), every path of the guard is enumerated and raises exactly when a coupled axis has w0*dt >= 2; feeding those expressions into susceptibility_from_coefficients gives exactly (a - i w b)/(w0^2 - w^2 - i g w) per axis on the occupied-slot branch, the occupied-slot mask is implied by c3 != 0 or c4 != 0 (full truth table), all-zero slots give 0; Lorentz / Drude / CCPR accessor tables and DispersionModel.susceptibility_axes equal the declared pole forms; the four Jury margin identities hold, so under the guard no recurrence root lies outside the unit circle. compute_allowed_dispersive_coefficients fills row k of every table with the k-th material of the common order (not of the dictionary's insertion order), zero in padded pole slots and for non-dispersive materials. The O((w dt)^2) convergence rate is not decided.",
    TB + "; numpy in-place item assignment model; path enumeration of the guard; real/imag/conj/abs on Gaussian-rational normal forms",
    "abstract interpretation with exhaustive path enumeration of symbolic guards; polynomial identity over Q(i); boolean truth table of the occupied-slot mask",
    "DESIGN.md §5 C35",
)

claim(
    "C20",
    "other",
    "Decides on tanh_projection / smoothed_projection: the three-way select (beta == 0 -> clip(x,0,1); infinite beta -> step 1[x>eta]; else the tanh formula), by interpretation under each assumption on the two predicates of beta and with beta = 0 / inf concretely; the finite branch equals (tanh(b eta)+tanh(b(x-eta)))/(tanh(b eta)+tanh(b(1-eta))) as an identity, fixes 0 and 1, depends on x only through tanh(b(x-eta)) with coefficient 1/divisor and slope b, and the divisor's two tanh arguments are b*eta and b*(1-eta) (positive for b>0, 0<eta<1), hence non-decreasing and [0,1] -> [0,1]; NaN-safety discipline: with beta = 0 and beta = inf every tanh argument the function forms is finite, no division by zero, and the raw infinite beta never enters arithmetic; in smoothed_projection every divisor, sqrt argument and power base is a parameter-derived constant or a jnp.where-sanitised value (syntax-tree rule); the smoothed result is where(mask, smoothed, tanh_projection(rho,beta,eta)) with mask implying a non-zero gradient norm (truth table), a flat field takes the plain branch with finite intermediates. Gradient finiteness beyond that discipline and float overflow are not decided.",
    TB + "; tanh odd/monotone; jnp.gradient as two opaque arrays; resolution of composite predicates under assumptions",
    "abstract interpretation under predicate assumptions to rational normal forms; structural monotonicity argument; recorded-call finiteness check; syntax-tree double-where rule; boolean truth table of the interface mask",
    "DESIGN.md §5 C20",
)

claim(
    "C22",
    "other",
    "Decides GaussianSmoothing2D._apply_smoothing by abstract interpretation on designs of free symbolic entries (singleton axis in each position, shapes larger and smaller than the kernel half-width) with default and explicit symbolic padding arrays: every output entry is a linear form in design and padding entries with input-independent coefficients that are non-negative combinations of kernel weights and add up to the full kernel sum, which the real kernel function is shown to normalise to 1 (kernel = exp(-r^2/(2 sigma^2))/sum over arange(-h,h+1)^2, even in both coordinates, requested with size 6*std+1) — so constants are preserved, the convolution's zero fill never contributes and outputs stay within the range of design and padding values; and the transform commutes with mirroring along either in-plane axis when the paddings are mirrored accordingly (entry-wise identity between two interpretations). A design with matching padding arrays is never rejected, and the same plane is smoothed to the same result whichever of the three axes is the singleton one. Holds for all real inputs of the interpreted shapes; float rounding is not decided.",
    TB + "; models of jnp.tile/full/meshgrid/arange and scipy.signal.convolve(mode='same'); kernel weights positive",
    "abstract interpretation on arrays of free symbols; linear-form extraction (symbolic derivative) with weight-sum and sign conditions; sibling identity under mirroring",
    "DESIGN.md §5 C22",
)

claim(
    "C37",
    "other",
    "Decides the RectilinearGrid helpers by abstract interpretation: coord_to_index is interpreted on one representative of every order type of the coordinate relative to the edges and their midpoints of a generic non-uniform axis (exhaustive for lower / upper, which only compare, and for nearest, which only compares distances): lower = last edge <= c, upper = first edge >= c, nearest = closest edge, first on ties; length_to_cell_count; bounds_for_center / bounds_for_anchor over all sizes, anchor positions and order types of the target: (lower, lower+size) with the closest centre / anchor, invalid sizes rejected. On symbolic edges: axis_extent, centers, anchor_coordinate, cell_volume = dx*dy*dz, face_area = product of the transverse widths in their own layout. CFL: uniform f*s/(c*sqrt 3), general f/(c*sqrt(sum 1/dmin^2)), branches agree on equal spacings, config.time_step_duration per grid policy, courant_number = f/sqrt 3. Uniform detection classifies ten representative grids as documented (narrower / wider cells, other axes, tolerance edge); reduce_symmetric keeps the upper half of symmetric axes and rejects asymmetric widths — with numpy's allclose semantics (rtol, atol) modelled, so the verdict is the same at nanometre scale as at unit scale. numpy float rounding is not decided.",
    TB + "; concrete numpy model on exact rationals (searchsorted, argmin first-on-ties, diff, min, max); order-type exhaustiveness argument for comparison-only helpers",
    "abstract interpretation with exhaustive order-type enumeration; polynomial identities (with sqrt normalisation) for the formulas; decision table over representative grids for uniform detection",
    "DESIGN.md §5 C37",
)

claim(
    "C14",
    "other",
    "Decides the schedule code by abstract interpretation: is_on_at_time_step over all 128 None-patterns of its optional parameters x period (symbolic values and time) raises exactly on ambiguous / over-specified / period-less windows and otherwise returns the closed-interval predicate start <= t*dt <= end with the documented start and end (a bare duration starts at 0), always-off never on, switch fields forwarded under their own names; calculate_on_list (fixed lists, window, interval) and the chronological index map on representative schedules; is_default_always_on falsified by each declared field; in one forward and one backward solver step a scheduled source's term is multiplied by the indicator of its own switch at the step taken and vanishes when off while an always-on source is ungated; update_detector_states selects update(step) or the previous state on the detector's own on-array and leaves the other time direction untouched; every time-domain detector update writes only row _time_step_to_arr_idx[step] of the state entry of the same name (all layouts), init_state allocates sum(on_list) rows and Detector.place_on_grid builds the chronological index map. A detector whose state has no record rows (always-off, empty schedule) is left out of the step: with the gate traced in both branches, as jax does, its update is never reached, nothing raises and the empty state is kept (R14.5). Runs of the time loop are not decided.",
    TB + "; canonical keys of comparison predicates; abstract source model of C02; recording detector state",
    "abstract interpretation with exhaustive None-pattern enumeration and canonical predicate comparison; indicator-algebra gating check on one solver step; recorded-write typestate for detector rows",
    "DESIGN.md §5 C14",
)

claim(
    "C34",
    "other",
    "Decides reduce_resolved_slices and make_symmetry_walls by abstract interpretation. The reduction touches slice endpoints only through comparisons, min/max, +- and halving of the validated even count, with independent axes apart from the drop flag, so it is interpreted per axis on every interval s0 < s1 in a window around two volumes for electric, magnetic and non-symmetric axes (every order type of the endpoints against volume start / plane / volume end, > 600 intervals): volume -> (0, end-plane); object -> [max(s0,plane), min(s1,end)) - plane; dropped exactly when empty (incl. ending on the plane); survivors record (s0-plane, s1-plane); other axes untouched; all 26 multi-axis tuples combine per-axis results; odd / < 2 counts rejected before the plane index is used, only on symmetric axes. Walls for all 27 tuples: a PEC wall exactly on each electric axis, cells 0..1 on its axis and the full reduced extent elsewhere (also with several walls), min direction, symmetry-wall flag, unique names. place_objects calls both only under config.has_symmetry and stores the unclipped extents. Physical mirror symmetry of the objects is not decided.",
    TB + "; order-type exhaustiveness for comparison-only integer code; syntax-tree guard extraction",
    "abstract interpretation with exhaustive order-type enumeration; decision table over the 27 symmetry tuples; syntax-tree guard rule",
    "DESIGN.md §5 C34",
)

claim(
    "C39",
    "other",
    "Decides the material description code by abstract interpretation: _normalize_material_property maps scalar, 3-tuple, flat 9-tuple and nested 3x3 inputs of pairwise distinct values to the same row-major 9-tuple and rejects malformed tuples; each of the six off-diagonal positions falsifies both the isotropic and the diagonal predicate and a changed diagonal entry only the isotropic one; the per-property Material predicates (isotropic / diagonal / magnetic / conductive) react to their own property's tensor and to no other; compute_ordered_names / _materials and the four compute_allowed_* lists in all three tiers enumerate a shuffled dictionary in one common order with tier slices (xx), (xx,yy,zz), all nine, and no other function in the package sorts a materials dictionary; from_complex_permittivity with symbolic complex entries in all input formats stores Re(input) and a conductivity whose quotient by omega*eps0 (omega*mu0) is Im(input) at the same row-major position, omega = 2 pi f from exactly one of reference / wavelength / frequency. math.isclose float tolerances are not decided.",
    TB + "; math.isclose exact on rationals; determinant check of from_complex_permittivity stubbed; symbolic reals accepted as floats (opt-in)",
    "abstract interpretation with position-identifying distinct values; single-entry perturbation tables for the predicates; polynomial identity over Q(i) for the complex split; syntax-tree who-may-sort rule",
    "DESIGN.md §5 C39",
)

claim(
    "C40",
    "other",
    "Decides TreeClass.aset together with its path parser and _aset by interpreting the real method on a nested configuration object whose containers are genuine shared-reference lists and dicts, for every existing path up to depth four over attribute / list index (incl. negative) / dict key steps and the create_new_ok cases (new attribute, new key; refused when the flag is off or the missing step is not last). aset depends on the path only through the step kinds and on whether the last step exists, so this is exhaustive for that depth. Per path, against a structural snapshot of the heap taken before the call: the receiver and everything reachable from it are unchanged; the result has the receiver's class and equals the original with exactly that path replaced; every container holding the replaced slot is a fresh copy in the result. The parser accepts the documented syntax and rejects malformed paths. Creating a missing slot with the value None works like any other value; the same from-the-end path applied in sequence to lists of different lengths addresses the right slot each time (a memoised parser is modelled as one shared parse result per string). Deeper paths and exotic container types are not decided.",
    TB + "; native shared-reference containers in the interpreter heap; model of pytreeclass .at[method](...) as 'run on a shallow copy'",
    "abstract interpretation with a concrete shared-reference heap; before/after heap snapshot comparison and aliasing (ownership) check along the path",
    "DESIGN.md §5 C40",
)

claim(
    "C43",
    "other",
    "Narrow on polygons (the point-in-polygon routine is a library call). Decides the rasterisation predicates by abstract interpretation with symbolic grid edges, radii and spacing: for spheres / ellipsoids (all per-axis radius fallbacks) and cylinders along each axis, on the uniform fallback and on a resolved non-uniform grid, the comparison that defines every mask cell is observed as the interpreter makes it and must read sum_axes((cell centre - box centre)/radius_axis)^2 < 1 with a strict <, cell centre (i+1/2)*spacing resp. (e_i+e_{i+1})/2 - e_lower of the object's own slice, box centre half the object's own extent on the same axis, each radius paired with its own axis, cylinders using their two transverse axes and constant along their own. For the extruded polygon the sample coordinates handed to the point-in-polygon routine are those cell centres per axis, vertices are shifted by the box centre, and the 2-D mask is repeated unchanged along the extrusion axis. Every documented combination of per-axis radii (any subset given) is rasterised with the given radius on its own axis, never rejected.",
    TB + "; observation of scalar comparisons as they are made (operands extracted); models of meshgrid / stack / expand_dims / repeat; point-in-polygon routine outside the analysis",
    "abstract interpretation with symbolic geometry; operand extraction of the defining comparison and polynomial identity against the centre-inclusion oracle; recorded-call check of the polygon sampler",
    "DESIGN.md §5 C43",
)

claim(
    "C18",
    "other",
    "Decides apply_params up to the end of its device loop by abstract interpretation on devices with symbolic, possibly overlapping grid slices and a symbolic per-cell parameter x, as polynomial identities in the devices' region indicators: continuous two-material devices write 1/(p0 + x (p1-p0)) per stored component (isotropic and diagonal tiers) with materials in the common order; etched devices write 1/(bg + x (p_etch - bg)) with bg the reciprocal of the restored initial inverse permittivity, restored once before the first device (stale values never survive; a later etched device keeps an earlier device's cells); discrete devices store the table entry of 1/eps or of the inverted 3x3 tensor at the integer material index; dispersive stacks c1..c4 blend (1-x)c_N[0]+x c_N[1] or look up c_N[index], each N from its own table, c4 only when allocated; outside the device slices every array keeps its incoming (restored) value and several devices paint sequentially in list order. _init_arrays keeps the backup of the initial inverse permittivity whenever at least one device etches (backward slice of the backup's definition interpreted over eight device lists, mixed ones included). The coefficient tables the devices index are in the common material order, like the permittivity table (C35's row rule, R18.6). Parameter transform chains, voxel expansion and the straight-through gradient (C19) are not decided here.",
    TB + "; prefix slicing of apply_params; symbolic table-lookup atoms for integer indices; indicator algebra; tree .at[name].set model",
    "abstract interpretation of a function prefix over an indicator-algebra array domain; polynomial identity against a sequential-painting oracle",
    "DESIGN.md §5 C18",
)

claim(
    "C15",
    "other",
    "Decides what update_detector_states hands to a detector. The co-location stencil of interpolate_fields on symbolic fields equals the stencil derived from the Yee staggering for the target (i, j, k+1/2) — per axis none / backward pair / forward pair (4,4,1,2,2,8 points), non-uniform backward pairs weighted by the half widths of their own axis with the first cell replicated. The whole path is interpreted on a concrete 5x4x4 grid of free symbolic field entries (current and previous H separate) and symbolic widths, for deep-interior / interior (fast path), face-touching, whole-domain and raw detectors on zero, periodic and electric / magnetic symmetry halos (one and two electric planes), uniform and non-uniform: the E and H arrays received by Detector.update equal entry by entry the stencil values under the halo rule (zero outside; wrap on periodic axes but never into the min halo of a symmetric axis; parity * mirror partner on electric symmetry planes, partner second cell for on-plane components, corners doubly mirrored), H time-centred (H_prev+H)/2 in both interpolating paths and untouched in the raw path, materials restricted to the region; on a stretched grid the co-location weight at the first cell of a wrapping axis uses the last cell's width (the neighbouring copy), a replica of the first cell's elsewhere. Which H the detectors receive as time partner in the forward and in the reverse step is decided by C03's step-order rule, evaluated here as R15.4. Holds for all field values on that grid.",
    TB + "; np.pad model on concrete arrays; Yee offsets E_c at +1/2 e_c, H_c at +1/2(1-e_c); parity / on-plane oracles of C32",
    "abstract interpretation over a stencil domain and on a concrete grid of free symbols; entry-wise polynomial identity against a stencil + halo oracle",
    "DESIGN.md §5 C15",
)

claim(
    "C09",
    "other",
    "Decides one step of the supercell identity on concrete cells: forward() is interpreted on a concrete cell (3x2x2 and its permutations) and on its supercell (2 or 3 copies per periodic axis; fields tiled with the Bloch phase exp(i k L) per copy, materials and — on a resolved rectilinear grid — cell widths tiled) with every field, material (isotropic, diagonal, full eps / mu tensors) and cell-width entry a free symbol, and the supercell's result must equal the tiled cell's result entry by entry as rational functions (periodic and Bloch faces on one, two or three axes, plain truncation elsewhere so that no entry is forced to zero). Whole runs follow by induction; round-off is not decided. Also decided is the condition it rests on — every read of a neighbouring cell across a periodic face sees what the adjacent copy of the cell would hold: pad_fields_for_boundaries, interpreted on a concrete 3x2x2 grid of free symbolic entries for every combination of Bloch / terminating axes, k of either sign and k = 0, uniform and resolved grids, yields halo cells equal to the wrapped neighbour times conj(phase) (min side) / phase (max side) with phase = exp(i k_a L_a), products at corners, zero behind terminating faces, interior untouched; needs_complex_fields is true exactly for a non-zero component along the boundary's own axis (negative included); wrap padding is reported exactly on axes with a periodic / Bloch face; inside fdtd/update.py the phase-less pad_fields is called only from pad_fields_for_boundaries and every array handed to a curl / anisotropic averaging routine in the four update functions is a result of pad_fields_for_boundaries. The supercell step also holds, for fields and stored polarisation, with an oriented-pole medium (3x3 coupling per pole) filling part of the cell across a periodic and a Bloch seam.",
    TB + "; np.pad model on concrete arrays; linalg.solve with an identity left-hand side = right-hand side; syntax-tree def-use of the padded inputs",
    "abstract interpretation of a whole solver step on a concrete cell and on its supercell over free symbols (rational-function identity per entry); supercell-halo oracle; decision tables; who-may-call / def-use rule on the syntax tree",
    "DESIGN.md §5 C09",
)

claim(
    "C12",
    "other",
    "Narrow: the 1e-6 / 1e-4 absorption levels are runtime quantities and are not decided. Decided are clauses without which a CPML layer cannot absorb: for a layer on each axis and direction, curl_E / curl_H with the layer equal the plain curl with every derivative d along the layer's axis replaced inside the layer by d + (1/kappa - 1) d + psi', psi' = b psi + a d, each memory variable paired with its own derivative and entering with that term's Levi-Civita sign, H coefficients in curl_E and E coefficients in curl_H, the kappa = 1 shortcut only when both kappa_start and kappa_end are 1 (four kappa patterns), psi frozen when boundaries are not simulated; place_on_grid sets b = exp(-dt/eps0 (sigma/kappa + alpha)), a = (b-1) sigma/((sigma + alpha kappa) kappa), inv_kappa = 1/kappa per staggering and the documented default sigma_end; the profile is start + (end-start)(depth/L)^order with depth 0 on the interior face, monotone into the layer, max-side depth tables the mirror image of the min-side ones; every per-face BoundaryConfig grading value, thickness, axis and direction reaches the PML field of the same name.",
    TB + "; Levi-Civita oracle of C01; exp/expm1/log opaque with expm1(u)+1 = exp(u); models of arange/append/insert/power on depth tables",
    "abstract interpretation over a stencil / indicator domain against a CPML substitution oracle; polynomial identities for the coefficients; decision tables for depth profiles and configuration wiring",
    "DESIGN.md §5 C12",
)

claim(
    "C13",
    "other",
    "Narrow: the radiated power ratio (1e-3, Gaussian 10 %) is a runtime quantity and is not decided. Decided are the clauses a one-directional total-field/scattered-field plane rests on: for every propagation axis, both directions, forward and inverse update and every material tier, TFSFPlaneSource.update_E / update_H add at the plane cell exactly -s c inv_material K inc, K being the coefficient with which the plane-cell sample enters the normal-axis difference of the repo's own curl_H / curl_E (so the incident contribution cancels behind the plane and completes in front of it), each incident component with its own Yee time offset, quadrature and filtered-profile variants included; calculate_time_offset_yee delays component c at cell p by -(x_c(p) - centre).k/(v dt) with x_c the Yee position forced by the curls' staggering, on the uniform and edge-coordinate paths and both velocity paths; normalize_polarization_for_source / tilted_polarization_vectors return a right-handed triple E x H = k with k = +-e_n for the declared direction whichever of E, H is prescribed (untilted and single-axis tilts of any angle); _source_impedance^2 = inv_eps/inv_mu; every source.update_H call in the solver is evaluated half a step after the source.update_E calls (forward and reverse); LinearlyPolarizedPlaneSource.apply wires e_pol -> E, h_pol / impedance -> H and the same wave vector into the stored time offsets.",
    TB + "; update normal forms of C01; opaque temporal profile; rational half-angle parametrisation of cos / sin; syntax-tree def-use in apply",
    "abstract interpretation over a stencil / indicator domain against an oracle derived from the repo's own curl; polynomial identities on concrete planes of free symbols; def-use and call-site rules on the syntax tree",
    "DESIGN.md §5 C13",
)

claim(
    "C05",
    "other",
    "Decides, for a symbolic number of steps T, that run_fdtd without gradient configuration, with checkpointed gradients and with reversible gradients of 1..4 slices ends at step T with the same history token of fields and detector states (reset, then steps 0..T-1 with record_detectors=True and simulate_boundaries=True) and untouched materials; every loop starts at the previous exit and its max_steps covers its length. The reversible driver is analysed against any strictly increasing partition 0 = s_0 < ... < s_k = T, and _reversible_slice_boundaries is shown to meet that contract for k = 1..6 (values round(x_i), x_0 = 0, x_k = T, constant increment T/k, driver rejects k > T) by the rounding lemma. record_boundaries affects only the recording state; run_fdtd's dispatch table. Every run loop continues on a comparison of the step counter with a step count; a continue-test in other units (physical time and time step, given to the drivers as unrelated symbols) is reported, since it lets strategies stop at different steps. Round-off differences between strategies are not decided.",
    TB + "; counting-loop summary of eqxi.while_loop; `forward` as an opaque deterministic step; rounding lemma (DESIGN.md)",
    "abstract interpretation of the drivers with symbolic step counts: counting-loop summaries, history tokens with run fusion, linear-inequality facts; normal-form check of the partition formula against a proven lemma",
    "DESIGN.md §5 C05",
)

claim(
    "C06",
    "other",
    "Decides on the drivers for symbolic step counts: custom_fdtd_forward a -> b then b -> c on the returned container equals a -> c (same step, same history token) for Python-int and array-valued bounds, every loop starting at start_time with a trip bound covering end - start for all 0 <= start <= end <= time_steps_total; ArrayContainer.reset on a used dispersive container zeroes every declared FieldState member (enumerated from the class) and every detector state, keeps materials / conductivities / dispersive coefficients, keeps the recording buffers by default and zeroes them on request; run_fdtd, checkpointed_fdtd, reversible_fdtd and custom_fdtd_forward(reset_container=True) from a used container give the token of a pristine one, a rerun on returned arrays gives the identical token, and a partial run without reset continues from the given state. The container every strategy returns carries the caller's material arrays unchanged (R6.4), and the reversible strategy re-run from its own result gives the identical token.",
    TB + "; counting-loop summary of eqxi.while_loop; `forward` as an opaque deterministic step; jax.tree.map as a leaf-wise map",
    "abstract interpretation of the drivers and of ArrayContainer.reset over history tokens; counting-loop summaries with linear-inequality facts; exhaustiveness against the declared class members",
    "DESIGN.md §5 C06",
)

claim(
    "C04",
    "other",
    "Narrow: gradient equality is a numerical statement; decided is the structure it rests on (chain rule over the executed steps). On reversible_fdtd's own custom-VJP closures, captured by interpreting the driver for symbolic T and 1..3 slices: the reverse loop starts at (T, final state), steps by -1 and exits at 0, so exactly the forward steps T-1..0 are linearised; each iteration reconstructs with backward(record_detectors=False, reset_fields=False) and calls jax.vjp on forward_single_args_wrapper with the primal forward's record_detectors / simulate_boundaries, record_boundaries=False, the run's config / key / conductivities and the reconstructed state as primals in the wrapper's parameter order; the pull-back is applied to the carried cotangent and its result carried; fdtd_bwd returns the inverse-permittivity / inverse-permeability cotangents in the primal's slots of those names and None elsewhere; fdtd_fwd runs the primal's segmented forward, checkpoint i is the field state at s_i and is restored exactly when the reverse counter equals s_i; forward_single_args_wrapper is the identity on slots; reverse updates evaluate every source at the forward call's time with inverse=True, and every public source class takes back with inverse=True exactly what it adds without (def-use rule R4.9, shared with C02 / C10).",
    TB + "; counting-loop summary; recording models of jax.custom_vjp / jax.vjp; chain rule; exact reconstruction is C02 / C03",
    "abstract interpretation of the custom-VJP closures with symbolic step counts (loop summary, recorded vjp operands, slot tables); sibling agreement of call-site tables on the syntax tree",
    "DESIGN.md §5 C04",
)

claim(
    "C03",
    "other",
    "Decides the record / restore plumbing the exact reverse reconstruction rests on (exactness of the interior reverse update is C02's, the inner-face grading C12's): collect_interfaces -> Recorder.compress (no modules, the lossless case) -> Recorder.decompress -> add_interfaces, interpreted end to end on symbolic fields with absorbing layers on every axis and side and buffers of arbitrary prior content, restores at time index t exactly the E and H collected at index t on exactly the slab cells adjacent to the interior (one overwrite per buffer, never an accumulation; nothing else touched); interface_slice / interface_slice_tuple / interface_grid_shape agree with that oracle and with the shapes _init_arrays declares to the recorder; `forward` records after both updates with the pre-increment index and returns index + 1, `backward` decrements first, restores at that index before the reverse updates (H then E), resets every boundary's slab afterwards and hands the restored H to the detectors; PerfectlyMatchedLayer.apply_field_reset zeroes exactly its slab in every field handed in; full_backward steps from the current index down to start_time_step (exclusive) with the caller's flags; reverse updates evaluate every source at the forward call's time.",
    TB + "; time-indexed buffer model; indicator algebra of .at[].set; counting-loop summary; C02 and C12 for the parts not decided here",
    "abstract interpretation of the recorder pipeline over an indicator-algebra array domain and a write-log buffer domain; call-order extraction from the real step functions with stubbed parts; counting-loop summary; sibling call-site tables",
    "DESIGN.md §5 C03",
)

claim(
    "C24",
    "other",
    "Median filter: binary_median_filter interpreted on concrete small volumes of free symbols, for five kernel shapes and six padding configurations (constant / edge / reflect / symmetric faces, per-face widths and fill values, the shipped substrate pattern): every voxel is round(box sum / box size) over the odd box centred on it in the volume padded face by face, checked against an independent pointwise padding oracle; for binary data and odd size that is the majority (arithmetic fact, not read off the code). The module applies it num_repeats times through the straight-through estimator. Pillar discretization: compute_allowed_indices equals, as a duplicate-free set, the columns with background only at the top end and (when requested) at most one distinct non-background material, for heights 1..4, 2..4 materials, every background index (the filter depends only on #distinct non-background values and background presence, all classes realised); nearest_index yields per candidate and pillar the documented distance (Euclidean, or mean|diff-diff| + |mean-mean|) and the argmin of exactly those over the candidate axis; PillarDiscretization writes layer l of the chosen candidate at height l for each pillar axis. Degenerate extents are included: a design one voxel thick under a 3-d kernel (the padding voxels of the flat axis count), blocks one voxel thick along z keep the configured metric for pillars along x / y, and pillars of height one use |value - candidate|. Ties / round-off in the argmin are not decided. The candidate table's background (R24.5): PillarDiscretization.init_module interpreted over every insertion order of a three-material dictionary, default and explicit background, each pillar axis — the index handed to the column enumeration is the background's position in the permittivity-sorted order that __call__ uses for the candidates' values.",
    TB + "; n-d convolution and np.pad models on concrete arrays; argmin as an opaque selector; symbolic gather",
    "abstract interpretation on concrete small volumes of free symbols against a pointwise padding / box-sum oracle; small-scope enumeration of the column grammar justified by the filter's equivalence classes; symbolic gather for the write-back",
    "DESIGN.md §5 C24",
)

claim(
    "C33",
    "other",
    "Decides that one solver step commutes with unfolding on the repo's own code: for each axis as electric symmetry axis, and for two electric axes at once, with zero and with periodic transverse faces, the reduced state is a concrete small grid of free symbols (odd components sampled on the plane zero there), materials free symbols constant along the symmetry axis; `forward` on the reduced scene with the symmetry PEC wall, then unfold_fields, equals `forward` on the doubled scene started from unfold_fields of the same state, entry by entry as polynomials on every cell except the outermost layers of the mirrored half (2 per step; two steps at the thorough tier); tangential E and normal H still vanish on the plane afterwards; the co-located fields a detector touching the plane receives in the reduced scene equal the doubled scene's, and the repo's detector unfolding of the reduced record reproduces the doubled record on both sides. Holds for all field / material values on those grids; sources, full-tensor materials and round-off are not covered. The walls the reduced run gets (one full plane per electric axis, also with two or three electric axes at once) and which detectors are mirror-extended afterwards (those clipped by a plane, not those merely beginning on it) are decided by C34's and C32's rules, evaluated here as R33.4.",
    TB + "; np.pad / roll / slicing models on concrete arrays; Yee staggering; parity tables (C32) and halo rule (C15) decided separately",
    "abstract interpretation of the solver step and of the unfolding on concrete small grids of free symbols; entry-wise polynomial identity of the two compositions",
    "DESIGN.md §5 C33",
)

claim(
    "C38",
    "other",
    "Narrow: equality of whole runs is not decided; decided are the three things it rests on. (1) UniformGrid.resolve and QuasiUniformGrid.resolve, interpreted for symbolic spacing and centre on several shapes, construct the RectilinearGrid from the same edges centre_a + s (i - n_a/2) (construction intercepted, entry-wise), _resolve_grid_from_volume derives the same cell counts for both policies and leaves an explicit grid alone. (2) RectilinearGrid.cfl_time_step gives the same step on its uniform and its general branch for equal minimal spacings, the policies' time_step_duration equals it, and with that step _metric_scale and TFSFPlaneSource._metric_scale_at_plane are identically 1 on equal widths for both stencils, so the metric-aware path coincides with the uniform one. (3) _center_to_bounds_for_grid, length_to_cell_count and axis_extent select the same cells for an equal-spaced grid whatever its origin, over all position / size classes. The constructor's uniformity verdict for equal widths (exact, or with a few ulp of jitter) is the same for every origin, entirely negative coordinates included; place_objects, interpreted up to the grid pinning on abstract grids that record the operations applied to them, pins the solver grid by the same route for the three descriptions (realise on the full shape, then reduce_symmetric under symmetry — 3 symmetries x 3 descriptions). Float round-off of edge arithmetic is not decided. The explicit description RectilinearGrid.uniform(shape, s, center=c) (no origin) is held to the same closed-form edges, on odd as well as even cell counts, and the cell counts derived from a metric volume size are the same for a non-zero policy centre.",
    TB + "; intercepted RectilinearGrid construction; rational numpy model of C37; sqrt opaque with sqrt(u)^2 = u",
    "abstract interpretation with symbolic spacing / centre against closed-form edges; polynomial identities for time step and metric factors; order-type enumeration for origin independence",
    "DESIGN.md §5 C38",
)

claim(
    "C36",
    "other",
    "The 10^4-step trajectory bound of clause 2 is not decided as such; decided is its acceptance side: the coupled field / polarisation stability limit of the explicit ADE coupling is derived from the verified recurrence (z = -1 margin of the characteristic quartic of one Fourier mode: D Q(-1) = 4 (4 - w0^2 dt^2 - inv_eps a dt^2) - kappa (4 - w0^2 dt^2)), placement's screening function is shown to return exactly the pair whose order is the sign of Q(-1) at the largest curl eigenvalue ((4d/3) S^2 inv_eps inv_mu, courant_number^2 = S^2/3 read off the config), to warn iff beyond, and to be run by _init_arrays for every dispersive simulation with its own time step and Courant factor; exact Schur-Cohn reduction at 1536 rational points confirms root location on both sides of the limit. Also decided: clause 1 — update_E interpreted on symbolic fields with two poles, isotropic / per-axis coefficient layouts, isotropic / diagonal permittivity, with and without conductivity and dE/dt (c4) coupling: P' = c1 P + c2 P_prev + c3 E (+ c4 E'), P_prev' = P, and the new field satisfies the discrete Ampere law with polarisation current, (1+a) E' = (1-a) E + c inv_eps curl H - inv_eps sum_p (P'_p - P_p), identically in all symbols; with all coefficients and the stored polarisation zero the step equals the non-dispersive step of the same material (iso / diagonal with and without conductivity, full tensor lossless) and the polarisation stays zero. The static side of clause 2: both coefficient routines raise exactly when a coupled axis has omega_0 dt >= 2 (all guard paths enumerated), the Jury margins of z^2 - c1 z - c2 are then non-negative, and placement obtains its coefficient arrays only from those routines. On a concrete 3x2x2 grid with a 3x3 coupling per pole (oriented poles, full-tensor kernel) cells whose coefficients are all zero keep zero polarisation whatever their neighbours carry, and in the medium the field-independent part of the new polarisation is c1 P + c2 P_prev (R36.7).",
    TB + "; Levi-Civita oracle of C01; discrete Ampere law with polarisation current as the oracle; identity linalg.solve for the lossless full tensor",
    "abstract interpretation over a stencil domain; residual polynomial identity against the discrete Ampere law; path enumeration of the acceptance guard; who-may-call table; symbolic extraction of the stability screening and polynomial identity with the z = -1 margin of the mode's characteristic quartic; exact Schur-Cohn root counting on the extracted recurrence at rational points",
    "DESIGN.md §5 C36",
)

claim(
    "C31",
    "other",
    "Decides writer / reader agreement of the setup serialisation by interpreting the repo's own _export_json, _import_obj_from_json, JsonSetup.dumps / loads / validate on abstract object graphs (json modelled by its specification: dict keys sorted, arrays in order, tuples written as arrays): every node form the writer emits — None, scalars, tuples, lists, string-keyed dicts, the four dataclass constraint kinds, tree classes (configuration with grid policy, dtype and symmetry; volume; material objects with constructed materials; a source with nested wave character, pulse profile and switch; a detector) — is rebuilt with the same class and equal public fields, recursively, tuples staying tuples; a whole setup whose object names are not in alphabetical order comes back with object_list and constraints in the original order; every member of JAX_DTYPES is written as the dotted name the reader resolves to the same dtype; every class the validator admits is a dataclass or a tree class whose exported public fields are constructor keywords. That place_objects is deterministic in (config, object_list, constraints) and json's float formatting are assumed; numpy / jax arrays inside a setup are not covered.",
    TB + "; json / importlib / re modelled by their specifications (re by constant folding on concrete strings)",
    "abstract interpretation of the exporter and the importer on abstract object graphs; structural equality of import(export(x)) and x; exhaustiveness over the dtype table and the validator's class table",
    "DESIGN.md §5 C31",
)

claim(
    "C30",
    "other",
    "The statement quantifies over a finite index domain and arbitrary values; the values are kept symbolic (the record of step t is a free symbol, the buffers start with arbitrary content) and the index domain is covered exhaustively (quick: total steps <= 9, k <= 4; thorough: total steps <= 40, k <= 8; every start step). For each triple the repo's Recorder with LinearReconstructEveryK is initialised by its own init_shapes (interpreted), every step is compressed in order, and for every t >= start decompress(t) equals, as a rational expression, v_t at saved steps and v_p + (t-p)/(q-p)(v_q - v_p) between the enclosing saved steps otherwise; unsaved steps leave every slot untouched; the same through a DtypeConversion + filter pipeline; DtypeConversion casts to its dtype going in (excluded keys untouched) and back to each key's recorded input dtype coming out. Exactness of a particular widening cast is a property of the float formats and is not decided. Two genuine defects found by this rule were fixed (start_recording_after > 0; total steps <= k). Chained time filters: Recorder.init_state sizes every time filter by the latent count that reaches it and the storage by the last one; the dtype module's exclusion matches the filter entry anywhere in the key.",
    TB + "; integer table code interpreted on concrete index arrays, recorded values symbolic; lax.cond on a decided predicate takes that branch",
    "abstract interpretation of the recorder pipeline with symbolic record values, exhaustive over the property's finite index domain; rational identity against the interpolation formula",
    "DESIGN.md §6 (moved from not-applicable) / §7",
)

claim(
    "C11",
    "other",
    "Narrow: equality of two runs up to round-off is not decided. Decided is the structure that makes it true: one step is F' = A F + s with a real matrix and a real source term and no code path depends on the storage type, so the real part is the real-valued run and a zero imaginary part stays zero. On the scenes of C10 (all material tiers, conductivities, non-uniform metric, CPML, PEC / PMC walls, zero-phase periodic faces, three switched sources) every output of `forward` — E, H, every CPML memory — is a degree-one polynomial of the state symbols whose coefficients contain neither the imaginary unit nor abs / conj / real / imag / angle of a state symbol (these are kept opaque on state symbols); plane-source increments are real for real and complex incident profiles; the Bloch halo correction with a zero vector is the identity; no function of the time loop, of a boundary hook or of a detector update tests the complexness of a field (who-may-branch, with an inventory of the tests that do exist); _init_arrays allocates E, H and every CPML memory with complex64 / complex128 according to the real dtype when complex fields are requested or required, rejects use_complex_fields=False with a non-zero Bloch vector (12 combinations). The hard plane source writes the real part on its E and H branch alike; the loss-carrying complex effective permittivity is requested only by the mode set-up, whose profile is made real unless the quadrature injection applies (no complex profile together with a filtered temporal profile, over all combinations of present / absent conductivity and dispersion arrays).",
    TB + "; a real-coefficient polynomial acts separately on real and imaginary parts; abstract source model of C10; prefix slicing of _init_arrays",
    "abstract interpretation over a stencil domain with non-holomorphic operations kept opaque; degree / coefficient-field analysis; who-may-branch rule on the syntax tree; decision table of the allocation prefix",
    "DESIGN.md §6 (moved from not-applicable)",
)

claim(
    "C25",
    "other",
    "Narrow: termination and the existence of a valid touch while the loop runs are not decided (an argmax over an empty mask would pick pixel 0). Decided are the premises under which the loop keeps the two colours disjoint and the output has the stated form: BrushConstraint2D._generator, interpreted over a set-algebra domain (arrays as formulas over the touch sets, dilation an opaque monotone operator, each of the five branch paths taken in turn), returns D(T_s*) of the final solid touches, starts from no touches and continues exactly while some pixel is in neither D(T_s) nor D(T_v); on every path no touch is removed, every added touch lies in the validity mask of its colour (not yet a touch, not in D of the other colour's pixels), the single-touch paths return the other colour unchanged, and on the many-touch path added solid touches lie outside D(possible-void U existing-void pixels) while added void touches are among the generators of the possible-void pixels (and symmetrically); dilate_jax is the centred dilation by the brush as given (orientation checked with an asymmetric kernel); circular_brush for eleven diameters has odd size, contains its centre, equals the closed disc and is point-symmetric. With the hand lemma (D monotone; for a point-symmetric brush t not in D(P) iff footprint(t) misses P) these give: D(T_s) and D(T_v) stay disjoint, so on exit solid = D(T_s*) and void = D(T_v*). The transform hands the generator no step budget below the number of pixels, whichever axis is the flat one, and returns the generator's result itself (no whole-design shortcut that checks only one colour).",
    TB + "; set algebra with opaque dilation, implications by truth table; lemma on dilation by a point-symmetric brush (DESIGN.md)",
    "abstract interpretation of the loop body over a set-algebra domain with scripted branch enumeration; propositional decision of inclusion obligations; concrete-kernel interpretation of the dilation and of the brush constructor",
    "DESIGN.md §6 (moved from not-applicable)",
)

claim(
    "C42",
    "other",
    "Narrow: that XLA's SPMD partitioning preserves values is the trusted base, and reduction-order round-off across partitions is not decided. Decided is that nothing the repository computes depends on the device count: create_named_sharded_matrix, interpreted for 1, 2 and 4 devices against a model of the jax sharding API, returns exactly the requested shape filled with the requested value, shards the requested axis (or the first axis of extent > 1 when that one has extent one) and rejects a non-divisible extent (15 combinations); sharding_preserving_set / _add equal arr.at[index].set / add(values) on one device and on several; init_sharded_dict pads only the leading time axis to the next multiple of the device count with zeros; the device list is read only by the sharding helpers, the recording-buffer allocation and the backend probing of SimulationConfig — nothing in the time loop, sources, detectors, boundaries or parameter transforms reads it. Set and add following one another on arrays of one layout and region in one process each perform their own operation (module-level state is kept across the calls of the sequence).",
    TB + "; XLA SPMD value preservation; model of Mesh / PartitionSpec / NamedSharding index map / make_array_from_single_device_arrays",
    "abstract interpretation of the allocation and update helpers against a model of the sharding API for several device counts; who-may-read rule on the syntax tree",
    "DESIGN.md §6 (moved from not-applicable)",
)
