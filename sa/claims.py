"""Per-property claims (level, note, technique). Imported by registry.build()."""

from .registry import claim

TB = "CPython ast; sa/poly.py (polynomial identity by cross-multiplication over Q(i)); sa/absint.py (abstract interpreter: my encoding of the Python subset and of the jnp primitives used at the anchors); oracles transcribed from the property statement / docstrings"

claim(
    "C41",
    "proof",
    "Real-number identities and range facts proved for all inputs: period*frequency=1 and wavelength=c*period on every input path of WaveCharacter; |amplitude|<=1 for CW and Gaussian profiles, ramp in [0,1] non-decreasing from 0; custom-signal interpolation formula, outside value and exact reproduction at sample times. Every obligation is an algebraic identity or interval entailment discharged by the analyser on the current source. Floating-point rounding is not decided.",
    TB + "; sa/ranges.py interval+derivative domain; parameters in a bounded positive box (1e-30..1e30)",
    "abstract interpretation of the anchored functions into rational normal forms and intervals; identity by polynomial cross-multiplication",
    "DESIGN.md §5 C41",
)
