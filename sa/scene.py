"""Symbolic FDTD scene fixture shared by the solver-kernel rules (C01, C02, C08-C10, C12-C15, C36).

Fields are NdArr over the three symbolic spatial dims; element c of E is the atom
E<c>@(0,0,0).  Objects are abstract instances of the repo's own classes, so the
repo's container properties / boundary methods are interpreted, not re-stated."""

from __future__ import annotations

from .absint import Interp
from .harness import open_obj
from .index import Index
from .ndarr import Dim, NdArr, field_atom
from .poly import Rat
from .values import Builtin, Obj

SP = (Dim(0, "Nx"), Dim(1, "Ny"), Dim(2, "Nz"))
AX = "xyz"


def vec(name: str, n: int = 3, sp=SP, deps=(0, 1, 2)) -> NdArr:
    return NdArr((n,), [field_atom(f"{name}{c}", (0, 0, 0), deps) for c in range(n)], sp)


def scal(name: str, sp=SP) -> NdArr:
    return NdArr((), [field_atom(name)], sp)


class Scene:
    def __init__(self, index: Index, interp: Interp):
        from . import absint

        self.ix = index
        self.it = interp
        absint.INTEGER_ATOMS.update({"Nx", "Ny", "Nz"})

    def cls(self, q):
        return self.ix.cls(q)

    def config(self, **kw) -> Obj:
        attrs = dict(
            courant_number=Rat.atom("c"),
            has_nonuniform_grid=False,
            symmetry=(0, 0, 0),
            time_step_duration=Rat.atom("dt"),
            resolved_grid=None,
            gradient_config=None,
            uniform_spacing=Builtin("uniform_spacing", lambda it, a, k: Rat.atom("res")),
        )
        attrs.update(kw)
        return Obj(self.cls("fdtdx.config.SimulationConfig"), attrs, "config")

    def volume(self) -> Obj:
        V = self.cls("fdtdx.objects.object.SimulationVolume") if "fdtdx.objects.object.SimulationVolume" in self.ix.classes else None
        return Obj(V, {"name": "volume", "grid_shape": (Rat.atom("Nx"), Rat.atom("Ny"), Rat.atom("Nz")), "_grid_slice_tuple": ((0, Rat.atom("Nx")), (0, Rat.atom("Ny")), (0, Rat.atom("Nz")))}, "volume")

    def objects(self, extra=()) -> Obj:
        OC = self.cls("fdtdx.fdtd.container.ObjectContainer")
        return Obj(OC, {"object_list": [self.volume()] + list(extra), "volume_idx": 0}, "objects")

    def fields(self, **kw) -> Obj:
        FS = self.cls("fdtdx.fdtd.container.FieldState")
        attrs = dict(E=vec("E"), H=vec("H"), psi_E={}, psi_H={}, dispersive_P_curr=None, dispersive_P_prev=None)
        attrs.update(kw)
        return Obj(FS, attrs, "fields")

    def arrays(self, eps_comps=3, mu_comps=3, sigma_e=None, sigma_h=None, fields=None, **kw) -> Obj:
        AC = self.cls("fdtdx.fdtd.container.ArrayContainer")
        attrs = dict(
            fields=fields or self.fields(),
            inv_permittivities=vec("ie", eps_comps),
            inv_permeabilities=vec("im", mu_comps) if mu_comps else Rat.atom("im"),
            electric_conductivity=vec("se", sigma_e) if sigma_e else None,
            magnetic_conductivity=vec("sh", sigma_h) if sigma_h else None,
            detector_states={},
            recording_state=None,
            dispersive_c1=None,
            dispersive_c2=None,
            dispersive_c3=None,
            dispersive_c4=None,
            initial_inv_permittivities=None,
        )
        attrs.update(kw)
        return Obj(AC, attrs, "arrays")

    def boundary(self, qual: str, axis: int, direction: str, name=None, **kw) -> Obj:
        ci = self.cls(qual)
        name = name or f"{ci.name}_{AX[axis]}{'min' if direction == '-' else 'max'}"
        lo = [0, 0, 0]
        hi = [Rat.atom("Nx"), Rat.atom("Ny"), Rat.atom("Nz")]
        gst = []
        from . import absint

        absint.INTEGER_ATOMS.update({f"{name}.s", f"{name}.e"})
        thin = "PerfectlyMatchedLayer" not in qual  # walls / periodic faces are one cell thick
        for a in range(3):
            if a == axis:
                gst.append((Rat.atom(f"{name}.s"), Rat.atom(f"{name}.s") + 1 if thin else Rat.atom(f"{name}.e")))
            else:
                gst.append((lo[a], hi[a]))
        attrs = dict(axis=axis, direction=direction, name=name, _grid_slice_tuple=tuple(gst), _is_symmetry_wall=False)
        attrs.update(kw)
        return Obj(ci, attrs, name)

    def pml(self, axis: int, direction: str, kappa_one=True, **kw) -> Obj:
        name = f"pml_{AX[axis]}{'min' if direction == '-' else 'max'}"
        attrs = dict(
            pml_a_E=Rat.atom(f"{name}.aE"),
            pml_b_E=Rat.atom(f"{name}.bE"),
            inv_kappa_E=Rat.atom(f"{name}.ikE"),
            pml_a_H=Rat.atom(f"{name}.aH"),
            pml_b_H=Rat.atom(f"{name}.bH"),
            inv_kappa_H=Rat.atom(f"{name}.ikH"),
            kappa_start=1 if kappa_one else Rat.atom(f"{name}.k0"),
            kappa_end=1 if kappa_one else Rat.atom(f"{name}.k1"),
        )
        attrs.update(kw)
        return self.boundary("fdtdx.objects.boundaries.perfectly_matched_layer.PerfectlyMatchedLayer", axis, direction, name=name, **attrs)
