"""Models of external (numpy / jax.numpy / math / jax / functools) functions
over scalar abstract values (exact numbers, poly.Rat, SymBool).

Array domains intercept these names first through AbsVal.av_ext; what is here
is the point-wise scalar meaning, which is also what a rule gets when it
represents an array by one generic element.
"""

from __future__ import annotations

import math
from fractions import Fraction

from .index import AnalysisError
from .poly import I, Poly, Rat, apply_fn, sqrt as rsqrt
from .values import AbsVal, Builtin, Closure, Obj, Partial, Raised, SymBool, Unknown, to_rat

ENTIRE = {"exp", "sin", "cos", "tanh", "sinh", "cosh", "expm1"}


def is_num(v):
    return isinstance(v, (int, float, Fraction, Rat, bool, SymBool, complex))


def conj_rat(r: Rat, interp=None) -> Rat:
    cplx = getattr(interp, "complex_atoms", set()) if interp is not None else set()

    def conj_atom(a):
        if a == I:
            return -Rat.atom(I)
        if isinstance(a, tuple) and a and a[0] == "call":
            if a[1] == "conj":
                return a[2] if isinstance(a[2], Rat) else Rat.atom(a[2])
            if a[1] in ENTIRE or a[1] in ("sum", "mean") or a[1].startswith("sum["):
                return Rat.atom(("call", a[1]) + tuple(conj_rat(x, interp) if isinstance(x, Rat) else x for x in a[2:]))
            if a[1] in ("abs", "real", "imag", "square_abs", "sqrt", "max", "min", "clip", "round", "floor"):
                return Rat.atom(a)
            if any(isinstance(x, Rat) and _has_complex(x, cplx) for x in a[2:]):
                return Rat.atom(("call", "conj", Rat.atom(a)))
            return Rat.atom(a)
        if a in cplx or (isinstance(a, tuple) and a and a[0] == "at" and a[1] in cplx):
            return Rat.atom(("call", "conj", Rat.atom(a)))
        return Rat.atom(a)

    mapping = {a: conj_atom(a) for a in r.atoms()}
    mapping = {a: v for a, v in mapping.items() if not (v.n.t == Poly.atom(a).t and v.d.is_const())}
    if not mapping:
        return r
    return r.subs(mapping)


def _has_complex(r: Rat, cplx) -> bool:
    for a in r.atoms():
        if a == I or a in cplx:
            return True
        if isinstance(a, tuple) and a and a[0] == "at" and a[1] in cplx:
            return True
        if isinstance(a, tuple) and a and a[0] == "call":
            if a[1] in ("abs", "real", "imag", "square_abs"):
                continue
            if any(isinstance(x, Rat) and _has_complex(x, cplx) for x in a[2:]):
                return True
    return False


def real_rat(r: Rat, interp=None) -> Rat:
    return (r + conj_rat(r, interp)) / 2


def imag_rat(r: Rat, interp=None) -> Rat:
    return (r - conj_rat(r, interp)) / (2 * Rat.atom(I))


def _unary(name):
    def f(it, a, k):
        v = a[0]
        if not is_num(v):
            return NotImplemented
        if isinstance(v, (int, Fraction)) and not isinstance(v, bool):
            if name == "sqrt":
                r = rsqrt(v)
                return r.const_value() if r.is_const() else r
            if name == "abs":
                return abs(v)
            if name == "square":
                return v * v
            if name == "sign":
                return (v > 0) - (v < 0)
            if name in ("floor", "ceil"):
                return getattr(math, name)(v)
            if name == "round":
                return round(v)
        if isinstance(v, float):  # inf / nan
            if name == "exp":
                return math.inf if v > 0 else 0
            if name == "tanh":
                return 1 if v > 0 else -1
            if name == "abs":
                return abs(v)
            if name in ("isinf",):
                return v in (math.inf, -math.inf)
            return v
        r = to_rat(v)
        if name in ("floor", "ceil", "round", "rint") and _is_integer_valued(it, r):
            return r
        if r.is_const() and name in ("floor", "ceil", "round", "rint"):
            c = r.const_value()
            return math.floor(c) if name == "floor" else math.ceil(c) if name == "ceil" else round(c)
        if name == "sqrt":
            return rsqrt(r)
        if name == "square":
            return r * r
        if name == "abs":
            if r.is_const():
                return Rat.const(abs(r.const_value()))
            return apply_fn("abs", r)
        return apply_fn(name, r)

    return f


def _is_integer_valued(it, r: Rat) -> bool:
    ints = getattr(it, "integer_atoms", set())
    if not r.d.is_const() or r.d.const_value() != 1:
        return False
    for m, c in r.n.t.items():
        if Fraction(c).denominator != 1:
            return False
        for a, e in m:
            if a not in ints:
                return False
    return True


def _np_real(it, a, k):
    v = a[0]
    if isinstance(v, (int, Fraction, float)):
        return v
    if not is_num(v):
        return NotImplemented
    return real_rat(to_rat(v), it)


def _np_imag(it, a, k):
    v = a[0]
    if isinstance(v, (int, Fraction, float)):
        return 0
    if not is_num(v):
        return NotImplemented
    return imag_rat(to_rat(v), it)


def _np_conj(it, a, k):
    v = a[0]
    if isinstance(v, (int, Fraction, float)):
        return v
    if not is_num(v):
        return NotImplemented
    return conj_rat(to_rat(v), it)


def _np_where(it, a, k):
    if len(a) != 3:
        return NotImplemented
    c, x, y = a
    if isinstance(c, bool):
        return x if c else y
    if isinstance(c, SymBool) and it.known(c) is not None:
        c = it.known(c)
        return x if c else y
    if isinstance(c, SymBool) and isinstance(x, (bool, SymBool)) and isinstance(y, (bool, SymBool)) and c.key not in it.assume:
        return merge(it, c, x, y)
    if not (is_num(x) and is_num(y)):
        return NotImplemented
    if isinstance(c, SymBool):
        if c.key in it.assume:
            t = it.assume[c.key]
            t = (not t) if c.negated else t
            return x if t else y
        ind = c.ind()
    elif isinstance(c, Rat):
        ind = c
    else:
        return NotImplemented
    if isinstance(x, float) or isinstance(y, float):
        # infinities: keep as opaque piecewise
        return Rat.atom(("call", "where", ind, _opaque_inf(x), _opaque_inf(y)))
    X, Y = to_rat(x), to_rat(y)
    return Y + ind * (X - Y)


def _opaque_inf(v):
    if isinstance(v, float):
        return Rat.atom("+inf") if v > 0 else -Rat.atom("+inf")
    return to_rat(v)


def _minmax(name):
    def f(it, a, k):
        if len(a) != 2 or not (is_num(a[0]) and is_num(a[1])):
            return NotImplemented
        x, y = a
        if all(isinstance(v, (int, Fraction)) for v in (x, y)):
            return max(x, y) if name == "max" else min(x, y)
        X, Y = to_rat(x), to_rat(y)
        d = X - Y
        if d.is_const():
            c = d.const_value()
            return (X if c >= 0 else Y) if name == "max" else (Y if c >= 0 else X)
        args = sorted([X, Y], key=lambda r: repr(r.key()))
        return Rat.atom(("call", name, args[0], args[1]))

    return f


def _clip(it, a, k):
    x = a[0]
    lo = a[1] if len(a) > 1 else k.get("min", k.get("a_min"))
    hi = a[2] if len(a) > 2 else k.get("max", k.get("a_max"))
    if not is_num(x):
        return NotImplemented
    x, lo, hi = (_constify(v) for v in (x, lo, hi))
    if all(isinstance(v, (int, Fraction)) for v in (x, lo, hi) if v is not None):
        r = x
        if lo is not None:
            r = max(r, lo)
        if hi is not None:
            r = min(r, hi)
        return r
    return Rat.atom(("call", "clip", to_rat(x), to_rat(lo) if lo is not None else Rat.atom("-inf"), to_rat(hi) if hi is not None else Rat.atom("+inf")))


def _constify(v):
    if isinstance(v, Rat) and v.is_const():
        return v.const_value()
    return v


def _transparent(it, a, k):
    return a[0]


def _stack(it, a, k):
    seq = a[0]
    if isinstance(seq, (list, tuple)):
        from .ndarr import stack

        axis = k.get("axis", a[1] if len(a) > 1 else 0)
        return stack(list(seq), axis)
    return NotImplemented


def _sum(it, a, k):
    v = a[0]
    if isinstance(v, (list, tuple)):
        tot = 0
        for x in v:
            tot = it.binop("add", tot, x)
        return tot
    if is_num(v):
        axis = k.get("axis", a[1] if len(a) > 1 else None)
        return linear_op(f"sum[{axis}]", to_rat(v))
    return NotImplemented


def _mean(it, a, k):
    v = a[0]
    if isinstance(v, (list, tuple)):
        return it.binop("div", _sum(it, a, k), len(v))
    if is_num(v):
        axis = k.get("axis", a[1] if len(a) > 1 else None)
        return linear_op(f"mean[{axis}]", to_rat(v))
    return NotImplemented


def linear_op(name: str, r: Rat) -> Rat:
    """A linear operator applied to a polynomial: distributes over terms whose
    non-constant part is kept as the operand (constants move out)."""
    if not r.d.is_const():
        return apply_fn(name, r)
    total = Rat.const(0)
    dc = r.d.const_value()
    for m, c in r.n.t.items():
        if not m:
            total = total + Rat.atom(("call", name, Rat.const(1))) * c
        else:
            total = total + Rat.atom(("call", name, Rat(Poly({m: Fraction(1)})))) * c
    return total / dc


def _zeros(it, a, k):
    return 0


def _ones(it, a, k):
    return 1


def _full(it, a, k):
    return a[1] if len(a) > 1 else k.get("fill_value")


def _isinf(it, a, k):
    v = a[0]
    if isinstance(v, float):
        return v in (math.inf, -math.inf)
    if isinstance(v, (int, Fraction)):
        return False
    if isinstance(v, Rat):
        if v.is_const():
            return False
        return SymBool(("isinf", v.key(), v.fmt()))
    return NotImplemented


def _isnan(it, a, k):
    v = a[0]
    if isinstance(v, float):
        return v != v
    if isinstance(v, (int, Fraction)):
        return False
    if isinstance(v, Rat):
        return False
    return NotImplemented


def _logical(name):
    def f(it, a, k):
        if name == "not":
            v = a[0]
            if isinstance(v, bool):
                return not v
            if isinstance(v, SymBool):
                return v.av_unop("not")
            if isinstance(v, Rat):
                return 1 - v
            return NotImplemented
        x, y = a[0], a[1]
        return it.binop("and" if name == "and" else "or", x, y)

    return f


def _power(it, a, k):
    return it.binop("pow", a[0], a[1])


def _lax_cond(it, a, k):
    pred, tf, ff = a[0], a[1], a[2]
    if type(pred).__name__ == "NdArr" and not pred.shape and not pred.sp and len(pred.data) == 1:
        pred = pred.data[0]  # 0-d array predicate
    ops = list(a[3:])
    if "operand" in k:
        ops = [k["operand"]]
    if isinstance(pred, bool):
        return it.call(tf if pred else ff, ops, {})
    if isinstance(pred, SymBool) and pred.key in it.assume:
        t = it.assume[pred.key]
        t = (not t) if pred.negated else t
        return it.call(tf if t else ff, ops, {})
    tv = it.call(tf, ops, {})
    fv = it.call(ff, ops, {})
    if isinstance(pred, Rat):
        if pred.is_const():
            return tv if pred.const_value() != 0 else fv
        pred = SymBool(("nz", pred.key(), pred.fmt()))
    if not isinstance(pred, SymBool):
        if isinstance(pred, AbsVal) and hasattr(pred, "as_symbool"):
            pred = pred.as_symbool()
        else:
            raise AnalysisError(f"lax.cond predicate {pred!r}")
    return merge(it, pred, tv, fv)


def merge(it, pred: SymBool, tv, fv):
    """Value-level select(pred, tv, fv)."""
    if tv is fv:
        return tv
    if isinstance(tv, (list, tuple)) and isinstance(fv, (list, tuple)) and len(tv) == len(fv):
        return type(tv)(merge(it, pred, x, y) for x, y in zip(tv, fv))
    if isinstance(tv, dict) and isinstance(fv, dict) and set(tv) == set(fv):
        return {kk: merge(it, pred, tv[kk], fv[kk]) for kk in tv}
    if isinstance(tv, AbsVal) and hasattr(tv, "av_merge"):
        return tv.av_merge(pred, fv, True)
    if isinstance(fv, AbsVal) and hasattr(fv, "av_merge"):
        return fv.av_merge(pred, tv, False)
    if isinstance(tv, (bool, SymBool)) and isinstance(fv, (bool, SymBool)):
        from .values import sb_and, sb_not, sb_or

        if isinstance(tv, bool) and isinstance(fv, bool) and tv == fv:
            return tv
        return sb_or(sb_and(pred, tv), sb_and(sb_not(pred), fv))
    if is_num(tv) and is_num(fv):
        T, F = to_rat(tv), to_rat(fv)
        if T.equals(F):
            return tv
        return F + pred.ind() * (T - F)
    if isinstance(tv, Obj) and isinstance(fv, Obj) and tv.cls is fv.cls:
        keys = set(tv.attrs) | set(fv.attrs)
        new = {}
        for kk in keys:
            new[kk] = merge(it, pred, tv.attrs.get(kk), fv.attrs.get(kk))
        return tv.replace(**new)
    if tv is None and fv is None:
        return None
    if tv == fv:
        return tv
    raise AnalysisError(f"cannot merge branches {type(tv).__name__} / {type(fv).__name__}")


def _mod(it, a, k):
    from .values import to_rat as _tr

    x, y = _tr(a[0]), _tr(a[1])
    if x.is_const() and y.is_const() and y.const_value() != 0:
        import math as _m

        q = x.const_value() / y.const_value()
        return x.const_value() - y.const_value() * _m.floor(q)
    return apply_fn("mod", x, y)


def _it_product(it, a, k):
    import itertools as _itx

    rep = k.get("repeat", 1)
    if not isinstance(rep, int):
        from .values import to_rat as _tr

        rep = int(_tr(rep).const_value())
    return list(_itx.product(*[list(x) for x in a], repeat=rep))


def _partial(it, a, k):
    return Partial(a[0], a[1:], k)


def _noop(it, a, k):
    return None


def _identity_decorator(it, a, k):
    if a:
        return a[0]
    return Builtin("decorator", lambda it2, a2, k2: a2[0])


def _math_fn(name):
    u = _unary(name)

    def f(it, a, k):
        return u(it, a, k)

    return f


def _arange(it, a, k):
    vals = [it.hashable(x) for x in a]
    if all(isinstance(v, int) for v in vals):
        return tuple(range(*vals))
    return NotImplemented


def _array(it, a, k):
    v = a[0]
    if isinstance(v, (list, tuple)):
        from .ndarr import NdArr

        return NdArr.from_nested(v)
    return v


def _prod(it, a, k):
    v = a[0]
    if isinstance(v, (list, tuple)):
        tot = 1
        for x in v:
            tot = it.binop("mul", tot, x)
        return tot
    return NotImplemented


def _cross(it, a, k):
    x, y = a[0], a[1]
    if isinstance(x, (tuple, list)) and isinstance(y, (tuple, list)) and len(x) == 3 and len(y) == 3:
        m = lambda p, q: it.binop("mul", p, q)
        s = lambda p, q: it.binop("sub", p, q)
        return (
            s(m(x[1], y[2]), m(x[2], y[1])),
            s(m(x[2], y[0]), m(x[0], y[2])),
            s(m(x[0], y[1]), m(x[1], y[0])),
        )
    return NotImplemented


def _stop_gradient(it, a, k):
    v = a[0]
    if getattr(it, "dual_mode", False) and isinstance(v, (Rat, int, Fraction)):
        # in dual mode the value is frozen: mark every atom as constant
        return freeze(to_rat(v))
    return v


def freeze(r: Rat) -> Rat:
    return r.subs({a: Rat.atom(("sg", a)) for a in r.atoms() if not (isinstance(a, tuple) and a and a[0] == "sg") and a != I})


def _isclose(it, a, k):
    x, y = a[0], a[1]
    if all(isinstance(v, (int, Fraction)) for v in (x, y)):
        rel = k.get("rel_tol", Fraction(1, 10**9))
        ab = k.get("abs_tol", 0)
        if isinstance(rel, Rat):
            rel = rel.const_value()
        if isinstance(ab, Rat):
            ab = ab.const_value()
        return abs(x - y) <= max(rel * max(abs(x), abs(y)), ab)
    if is_num(x) and is_num(y):
        from .absint import rat_compare

        return rat_compare("eq", x, y)
    return NotImplemented


def install(interp):
    H = interp.ext_handlers
    from . import ndarr as _nd

    H["np.eye"] = lambda it, a, k: _nd._x_eye(a, k)

    def tree_leaves(it, a, k):
        """leaves in jax's canonical order: dict values by sorted key, sequences in order, None dropped"""
        out = []

        def rec(x):
            if x is None:
                return
            if isinstance(x, dict):
                for key in sorted(x):
                    rec(x[key])
            elif isinstance(x, (list, tuple)):
                for y in x:
                    rec(y)
            else:
                out.append(x)

        rec(a[0])
        return out

    def finfo(it, a, k):
        """machine parameters of a float type as positive symbols (their values are round-off matters)"""
        from .values import Obj as _Obj

        return _Obj(None, {"eps": Rat.atom("float_eps"), "tiny": Rat.atom("float_tiny"), "max": Rat.atom("float_max"), "min": -Rat.atom("float_max")}, "finfo")

    H["np.finfo"] = finfo
    H["jax.tree_util.tree_leaves"] = tree_leaves
    H["jax.tree.leaves"] = tree_leaves
    H["math.isclose"] = _isclose
    H["np.isclose"] = _isclose
    for n in ("exp", "sin", "cos", "tanh", "sinh", "cosh", "sqrt", "abs", "square", "sign", "floor", "ceil", "round", "expm1", "log", "log1p", "arctan", "tan", "rint", "arcsin", "arccos", "log10", "log2"):
        H[f"np.{n}"] = _unary(n)
        H[f"math.{n}"] = _math_fn(n)
    H["np.absolute"] = _unary("abs")
    H["math.fabs"] = _unary("abs")
    H["np.real"] = _np_real
    H["np.imag"] = _np_imag
    H["np.conj"] = _np_conj
    H["np.conjugate"] = _np_conj
    H["np.where"] = _np_where
    H["np.maximum"] = _minmax("max")
    H["np.minimum"] = _minmax("min")
    H["np.clip"] = _clip
    for n in ("asarray", "array", "float32", "float64", "complex64", "complex128", "int32", "int64", "squeeze", "ravel", "atleast_1d", "copy", "nan_to_num"):
        H[f"np.{n}"] = _transparent
    H["np.array"] = _array
    H["np.asarray"] = _array
    H["jax.lax.stop_gradient"] = _stop_gradient
    H["lax.stop_gradient"] = _stop_gradient
    H["jax.device_put"] = _transparent
    H["jax.block_until_ready"] = _transparent
    H["np.stack"] = _stack
    H["np.sum"] = _sum
    H["np.mean"] = _mean
    H["np.prod"] = _prod
    H["math.prod"] = _prod
    H["np.cross"] = _cross
    H["np.zeros"] = _zeros
    H["np.zeros_like"] = _zeros
    H["np.ones"] = _ones
    H["np.ones_like"] = _ones
    H["np.full"] = _full
    H["np.full_like"] = _full
    H["np.isinf"] = _isinf
    H["math.isinf"] = _isinf
    H["np.isnan"] = _isnan
    H["math.isnan"] = _isnan
    H["np.isfinite"] = lambda it, a, k: it.unop_not(_isinf(it, a, k)) if _isinf(it, a, k) is not NotImplemented else NotImplemented
    H["np.logical_and"] = _logical("and")
    H["np.logical_or"] = _logical("or")
    H["np.logical_not"] = _logical("not")
    H["np.power"] = _power
    H["math.pow"] = _power
    H["np.arange"] = _arange
    H["lax.cond"] = _lax_cond
    H["jax.lax.cond"] = _lax_cond
    H["np.mod"] = _mod
    H["np.remainder"] = _mod
    H["itertools.product"] = _it_product
    H["functools.partial"] = _partial
    H["partial"] = _partial
    for n in ("warnings.warn", "logger.warning", "logger.info", "logger.debug", "logging.warning", "loguru.logger.warning", "loguru.logger.info", "loguru.logger.debug", "jax.debug.print", "jax.debug.callback"):
        H[n] = _noop
    for n in ("jax.jit", "jax.checkpoint", "jax.remat", "functools.wraps", "functools.lru_cache", "functools.cache", "jax.named_call", "jax.named_scope", "typing.cast"):
        H[n] = _identity_decorator
    H["typing.cast"] = lambda it, a, k: a[1]
