"""E0 — loader and program index over the *current* working tree of the repo.

Parses every module of src/fdtdx with the stdlib ast module (nothing is
imported or executed) and offers symbol / class / method resolution.
"""

from __future__ import annotations

import ast
import hashlib
import os
from dataclasses import dataclass, field


class AnalysisError(Exception):
    """The analyser cannot decide (vanished anchor, unknown idiom, ...): exit 2."""


class AnchorError(AnalysisError):
    pass


@dataclass
class FunctionInfo:
    name: str
    qualname: str  # module.Class.func or module.func
    node: ast.FunctionDef
    module: "ModuleInfo"
    cls: "ClassInfo | None" = None

    @property
    def decorators(self) -> list[str]:
        out = []
        for d in self.node.decorator_list:
            out.append(ast.unparse(d))
        return out

    @property
    def is_property(self) -> bool:
        return any(d in ("property", "functools.cached_property", "cached_property") for d in self.decorators)

    @property
    def is_static(self) -> bool:
        return "staticmethod" in self.decorators

    @property
    def is_classmethod(self) -> bool:
        return "classmethod" in self.decorators

    @property
    def is_abstract(self) -> bool:
        return any(d.endswith("abstractmethod") for d in self.decorators)

    @property
    def is_overload(self) -> bool:
        return any(d.endswith("overload") for d in self.decorators)

    def where(self) -> str:
        return f"{self.module.relpath}:{self.node.lineno}:{self.qualname}"


@dataclass
class ClassInfo:
    name: str
    qualname: str
    node: ast.ClassDef
    module: "ModuleInfo"
    base_exprs: list[str] = field(default_factory=list)
    bases: list["ClassInfo"] = field(default_factory=list)
    methods: dict[str, FunctionInfo] = field(default_factory=dict)
    # class-level assignments: name -> (annotation node|None, value node|None)
    fields: dict[str, tuple] = field(default_factory=dict)
    _mro: list["ClassInfo"] | None = None

    def mro(self) -> list["ClassInfo"]:
        if self._mro is None:
            self._mro = _c3(self)
        return self._mro

    def lookup_method(self, name: str) -> FunctionInfo | None:
        for c in self.mro():
            if name in c.methods:
                return c.methods[name]
        return None

    def lookup_field(self, name: str):
        for c in self.mro():
            if name in c.fields:
                return c, c.fields[name]
        return None

    def all_fields(self) -> dict[str, tuple]:
        out = {}
        for c in reversed(self.mro()):
            for k, v in c.fields.items():
                out[k] = (c, v)
        return out

    def is_subclass_of(self, other: "ClassInfo | str") -> bool:
        for c in self.mro():
            if c is other or c.qualname == other or c.name == other:
                return True
        return False

    def where(self) -> str:
        return f"{self.module.relpath}:{self.node.lineno}:{self.qualname}"


def _c3(cls: ClassInfo) -> list[ClassInfo]:
    seqs = [list(b.mro()) for b in cls.bases] + [list(cls.bases)]
    res = [cls]
    seqs = [s for s in seqs if s]
    while seqs:
        for s in seqs:
            cand = s[0]
            if not any(cand in t[1:] for t in seqs):
                break
        else:
            # inconsistent hierarchy: fall back to DFS order
            seen = [cls]
            for b in cls.bases:
                for c in b.mro():
                    if c not in seen:
                        seen.append(c)
            return seen
        res.append(cand)
        for s in seqs:
            if s and s[0] is cand:
                del s[0]
        seqs = [s for s in seqs if s]
    return res


@dataclass
class ModuleInfo:
    name: str
    path: str
    relpath: str
    source: str
    tree: ast.Module
    digest: str
    functions: dict[str, FunctionInfo] = field(default_factory=dict)
    classes: dict[str, ClassInfo] = field(default_factory=dict)
    # local name -> ("module", modname) | ("attr", modname, attr)
    imports: dict[str, tuple] = field(default_factory=dict)
    # top-level simple assignments name -> value node
    assigns: dict[str, ast.expr] = field(default_factory=dict)


class Index:
    def __init__(self, repo_root: str, package: str = "fdtdx"):
        self.repo_root = os.path.abspath(repo_root)
        self.src_root = os.path.join(self.repo_root, "src")
        self.package = package
        self.modules: dict[str, ModuleInfo] = {}
        self.classes: dict[str, ClassInfo] = {}
        self.consulted: dict[str, str] = {}
        self._load()
        self._resolve_bases()

    # ------------------------------------------------------------------ load
    def _load(self):
        pkg_root = os.path.join(self.src_root, self.package)
        if not os.path.isdir(pkg_root):
            raise AnchorError(f"package directory missing: {pkg_root}")
        for dirpath, dirnames, filenames in os.walk(pkg_root):
            dirnames[:] = sorted(d for d in dirnames if d != "__pycache__")
            for fn in sorted(filenames):
                if not fn.endswith(".py"):
                    continue
                path = os.path.join(dirpath, fn)
                rel = os.path.relpath(path, self.src_root)
                modname = rel[:-3].replace(os.sep, ".")
                if modname.endswith(".__init__"):
                    modname = modname[: -len(".__init__")]
                with open(path, "rb") as f:
                    raw = f.read()
                try:
                    src = raw.decode("utf-8")
                    tree = ast.parse(src, filename=path)
                except (SyntaxError, UnicodeDecodeError) as e:
                    raise AnalysisError(f"cannot parse {path}: {e}")
                mi = ModuleInfo(
                    name=modname,
                    path=path,
                    relpath=os.path.relpath(path, self.repo_root),
                    source=src,
                    tree=tree,
                    digest=hashlib.sha256(raw).hexdigest(),
                )
                self._index_module(mi, is_pkg=fn == "__init__.py")
                self.modules[modname] = mi

    def _index_module(self, mi: ModuleInfo, is_pkg: bool):
        def handle(stmts):
            for st in stmts:
                if isinstance(st, ast.Import):
                    for a in st.names:
                        local = a.asname or a.name.split(".")[0]
                        target = a.name if a.asname else a.name.split(".")[0]
                        mi.imports[local] = ("module", target)
                elif isinstance(st, ast.ImportFrom):
                    base = st.module or ""
                    if st.level:
                        parts = mi.name.split(".")
                        if not is_pkg:
                            parts = parts[:-1]
                        parts = parts[: len(parts) - (st.level - 1)]
                        base = ".".join(parts + ([st.module] if st.module else []))
                    for a in st.names:
                        mi.imports[a.asname or a.name] = ("attr", base, a.name)
                elif isinstance(st, (ast.FunctionDef, ast.AsyncFunctionDef)):
                    fi = FunctionInfo(st.name, f"{mi.name}.{st.name}", st, mi)
                    if not fi.is_overload or st.name not in mi.functions:
                        mi.functions[st.name] = fi
                elif isinstance(st, ast.ClassDef):
                    ci = ClassInfo(st.name, f"{mi.name}.{st.name}", st, mi)
                    ci.base_exprs = [ast.unparse(b) for b in st.bases]
                    for s in st.body:
                        if isinstance(s, (ast.FunctionDef, ast.AsyncFunctionDef)):
                            fi = FunctionInfo(s.name, f"{ci.qualname}.{s.name}", s, mi, ci)
                            # keep setters out; keep first non-overload definition
                            if any(ast.unparse(d).endswith(".setter") for d in s.decorator_list):
                                continue
                            if fi.is_overload and s.name in ci.methods:
                                continue
                            ci.methods[s.name] = fi
                        elif isinstance(s, ast.AnnAssign) and isinstance(s.target, ast.Name):
                            ci.fields[s.target.id] = (s.annotation, s.value)
                        elif isinstance(s, ast.Assign):
                            for t in s.targets:
                                if isinstance(t, ast.Name):
                                    ci.fields[t.id] = (None, s.value)
                    mi.classes[st.name] = ci
                    self.classes[ci.qualname] = ci
                elif isinstance(st, ast.Assign):
                    for t in st.targets:
                        if isinstance(t, ast.Name):
                            mi.assigns[t.id] = st.value
                elif isinstance(st, ast.AnnAssign) and isinstance(st.target, ast.Name) and st.value is not None:
                    mi.assigns[st.target.id] = st.value
                elif isinstance(st, ast.If):
                    # TYPE_CHECKING / version guards: index both arms
                    handle(st.body)
                    handle(st.orelse)
                elif isinstance(st, ast.Try):
                    handle(st.body)
                    for h in st.handlers:
                        handle(h.body)

        handle(mi.tree.body)

    def _resolve_bases(self):
        for ci in self.classes.values():
            for b in ci.node.bases:
                r = self.resolve_expr_to_class(ci.module, b)
                if r is not None:
                    ci.bases.append(r)

    # ------------------------------------------------------------ resolution
    def resolve_name(self, mi: ModuleInfo, name: str, _depth=0):
        """Resolve a module-level name to FunctionInfo | ClassInfo | ('module', name)
        | ('assign', ModuleInfo, node) | None."""
        if _depth > 12:
            return None
        if name in mi.functions:
            return mi.functions[name]
        if name in mi.classes:
            return mi.classes[name]
        if name in mi.assigns:
            return ("assign", mi, mi.assigns[name])
        if name in mi.imports:
            imp = mi.imports[name]
            if imp[0] == "module":
                return ("module", imp[1])
            _, base, attr = imp
            full = f"{base}.{attr}"
            if full in self.modules:
                return ("module", full)
            if base in self.modules:
                return self.resolve_name(self.modules[base], attr, _depth + 1) or ("external", base, attr)
            return ("external", base, attr)
        return None

    def resolve_expr_to_class(self, mi: ModuleInfo, node: ast.expr) -> ClassInfo | None:
        if isinstance(node, ast.Name):
            r = self.resolve_name(mi, node.id)
            return r if isinstance(r, ClassInfo) else None
        if isinstance(node, ast.Attribute):
            base = node.value
            if isinstance(base, ast.Name):
                r = self.resolve_name(mi, base.id)
                if isinstance(r, tuple) and r[0] == "module" and r[1] in self.modules:
                    rr = self.resolve_name(self.modules[r[1]], node.attr)
                    return rr if isinstance(rr, ClassInfo) else None
        if isinstance(node, ast.Subscript):
            return self.resolve_expr_to_class(mi, node.value)
        return None

    # ---------------------------------------------------------------- anchors
    def module(self, name: str) -> ModuleInfo:
        if name not in self.modules:
            raise AnchorError(f"module vanished: {name}")
        mi = self.modules[name]
        self.consulted[mi.relpath] = mi.digest
        return mi

    def function(self, qualname: str) -> FunctionInfo:
        """'fdtdx.fdtd.update.update_E' or 'fdtdx.mod.Class.method'."""
        parts = qualname.split(".")
        for cut in range(len(parts) - 1, 0, -1):
            mod = ".".join(parts[:cut])
            if mod in self.modules:
                mi = self.module(mod)
                rest = parts[cut:]
                if len(rest) == 1 and rest[0] in mi.functions:
                    return mi.functions[rest[0]]
                if len(rest) == 2 and rest[0] in mi.classes:
                    ci = mi.classes[rest[0]]
                    if rest[1] in ci.methods:
                        return ci.methods[rest[1]]
                break
        raise AnchorError(f"function vanished: {qualname}")

    def cls(self, qualname: str) -> ClassInfo:
        if qualname in self.classes:
            ci = self.classes[qualname]
            self.consulted[ci.module.relpath] = ci.module.digest
            return ci
        # allow bare class names when unique
        cands = [c for c in self.classes.values() if c.name == qualname]
        if len(cands) == 1:
            self.consulted[cands[0].module.relpath] = cands[0].module.digest
            return cands[0]
        raise AnchorError(f"class vanished or ambiguous: {qualname}")

    def subclasses(self, base: ClassInfo, strict=True) -> list[ClassInfo]:
        out = []
        for c in self.classes.values():
            if c is base and strict:
                continue
            if base in c.mro():
                out.append(c)
        return sorted(out, key=lambda c: c.qualname)

    def public_names(self) -> set[str]:
        """Names exported from fdtdx/__init__.py (__all__ or imported names)."""
        mi = self.module(self.package)
        names = set()
        for st in mi.tree.body:
            if isinstance(st, ast.Assign) and any(isinstance(t, ast.Name) and t.id == "__all__" for t in st.targets):
                if isinstance(st.value, (ast.List, ast.Tuple)):
                    for e in st.value.elts:
                        if isinstance(e, ast.Constant) and isinstance(e.value, str):
                            names.add(e.value)
        if not names:
            names = set(mi.imports)
        return names

    def public_class(self, name: str) -> ClassInfo | None:
        mi = self.module(self.package)
        r = self.resolve_name(mi, name)
        return r if isinstance(r, ClassInfo) else None

    def all_functions(self):
        for mi in self.modules.values():
            for f in mi.functions.values():
                yield f
            for c in mi.classes.values():
                for f in c.methods.values():
                    yield f


def find_nodes(node: ast.AST, typ) -> list:
    return [n for n in ast.walk(node) if isinstance(n, typ)]


def call_name(call: ast.Call) -> str:
    try:
        return ast.unparse(call.func)
    except Exception:
        return ""
