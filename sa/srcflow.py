"""Injection-form dataflow for Source.update_E / update_H (rules R2.5 / R10.1).

Decides, on the syntax tree of every update method a public Source class resolves to (and of the
module-level helpers the field is handed to), that the source is *additive with an inverse-controlled
sign*:

  * the field parameter F is only ever used as  F = F.at[idx].add(term)  /  F = helper(F, ...)  /
    F.dtype|shape|ndim  /  return F;
  * `inverse` reaches the injected value only through a sign variable built by one of the two idioms
    s = A if inverse else -A   and   if inverse: s = -s;
  * every term is a product with exactly one sign factor, and neither the remaining factors nor the index
    depend (def-use closure, flow-insensitive) on F, on `inverse` or on a sign variable;
  * no return is controlled by `inverse`.

Anything outside these shapes that the rule cannot classify is an AnalysisError (exit 2), never a verdict.
"""

from __future__ import annotations

import ast

from .index import AnalysisError, FunctionInfo

META_ATTRS = {"dtype", "shape", "ndim", "size"}
AT_MODES = {"add", "set", "multiply", "mul", "divide", "power", "min", "max", "apply", "get"}


def _same(a: ast.AST, b: ast.AST) -> bool:
    return ast.dump(a) == ast.dump(b)


def _neg_pair(a: ast.expr, b: ast.expr) -> bool:
    """a == -b syntactically."""
    if isinstance(a, ast.UnaryOp) and isinstance(a.op, ast.USub) and _same(a.operand, b):
        return True
    if isinstance(b, ast.UnaryOp) and isinstance(b.op, ast.USub) and _same(b.operand, a):
        return True

    def num(x):
        if isinstance(x, ast.Constant) and isinstance(x.value, (int, float)) and not isinstance(x.value, bool):
            return x.value
        if isinstance(x, ast.UnaryOp) and isinstance(x.op, ast.USub):
            v = num(x.operand)
            return None if v is None else -v
        return None

    va, vb = num(a), num(b)
    return va is not None and vb is not None and va == -vb and va != 0


def _is_inv_test(t: ast.expr, inv: str) -> bool:
    if isinstance(t, ast.Name) and t.id == inv:
        return True
    return isinstance(t, ast.UnaryOp) and isinstance(t.op, ast.Not) and isinstance(t.operand, ast.Name) and t.operand.id == inv


class Verdict:
    def __init__(self, construct, ok, detail, extracted, oracle):
        self.construct, self.ok, self.detail, self.extracted, self.oracle = construct, ok, detail, extracted, oracle


class FuncFlow:
    """Facts about one function body: parents, definitions, sign variables."""

    def __init__(self, fn: ast.FunctionDef, field: str, inv: str | None, sign_seeds: set[str]):
        self.fn, self.field, self.inv = fn, field, inv
        self.parent: dict[ast.AST, ast.AST] = {}
        for n in ast.walk(fn):
            for c in ast.iter_child_nodes(n):
                self.parent[c] = n
        self.sgn: set[str] = set(sign_seeds)
        self.idiom_nodes: set[int] = set()  # ids of nodes that form a recognised sign idiom
        self.defs: dict[str, list[ast.AST]] = {}
        self.ctrl: dict[str, set[str]] = {}  # control dependences: name -> names read by enclosing tests
        self._find_sign_idioms()
        self._collect_defs()

    # -- sign idioms -----------------------------------------------------------------
    def _find_sign_idioms(self):
        if self.inv is None:
            return
        for n in ast.walk(self.fn):
            if isinstance(n, ast.Assign) and len(n.targets) == 1 and isinstance(n.targets[0], ast.Name) and isinstance(n.value, ast.IfExp):
                ie = n.value
                if _is_inv_test(ie.test, self.inv) and _neg_pair(ie.body, ie.orelse):
                    self.sgn.add(n.targets[0].id)
                    self.idiom_nodes.add(id(ie.test))
            if isinstance(n, ast.If) and _is_inv_test(n.test, self.inv) and not n.orelse and len(n.body) == 1:
                st = n.body[0]
                if isinstance(st, ast.Assign) and len(st.targets) == 1 and isinstance(st.targets[0], ast.Name):
                    v = st.value
                    if isinstance(v, ast.UnaryOp) and isinstance(v.op, ast.USub) and isinstance(v.operand, ast.Name) and v.operand.id == st.targets[0].id:
                        self.sgn.add(st.targets[0].id)
                        self.idiom_nodes.add(id(n))

    # -- definitions -------------------------------------------------------------------
    def _targets(self, t: ast.expr) -> list[tuple[str, list[ast.expr]]]:
        """(base name, extra index expressions) for an assignment target."""
        if isinstance(t, ast.Name):
            return [(t.id, [])]
        if isinstance(t, (ast.Tuple, ast.List)):
            out = []
            for e in t.elts:
                out += self._targets(e)
            return out
        if isinstance(t, ast.Starred):
            return self._targets(t.value)
        if isinstance(t, ast.Subscript):
            return [(b, idx + [t.slice]) for b, idx in self._targets(t.value)]
        if isinstance(t, ast.Attribute):
            return [(b, idx) for b, idx in self._targets(t.value)]
        return []

    def _add_def(self, name: str, *exprs: ast.AST):
        self.defs.setdefault(name, []).extend(e for e in exprs if e is not None)

    def _collect_defs(self):
        for n in ast.walk(self.fn):
            if isinstance(n, ast.Assign):
                for t in n.targets:
                    for name, idx in self._targets(t):
                        self._add_def(name, n.value, *idx)
            elif isinstance(n, ast.AugAssign):
                for name, idx in self._targets(n.target):
                    self._add_def(name, n.value, *idx)
            elif isinstance(n, ast.AnnAssign) and n.value is not None:
                for name, idx in self._targets(n.target):
                    self._add_def(name, n.value, *idx)
            elif isinstance(n, (ast.For, ast.comprehension)):
                for name, idx in self._targets(n.target):
                    self._add_def(name, n.iter, *idx)
            elif isinstance(n, ast.NamedExpr):
                self._add_def(n.target.id, n.value)
            elif isinstance(n, ast.withitem) and n.optional_vars is not None:
                for name, idx in self._targets(n.optional_vars):
                    self._add_def(name, n.context_expr, *idx)
            elif isinstance(n, (ast.FunctionDef, ast.Lambda)) and n is not self.fn:
                if isinstance(n, ast.FunctionDef):
                    self._add_def(n.name, *n.body)
        # control dependence: names assigned under an if / while whose test is not a recognised idiom
        for n in ast.walk(self.fn):
            if isinstance(n, (ast.If, ast.While)) and id(n) not in self.idiom_nodes:
                tn = self.names(n.test)
                if not tn:
                    continue
                for st in n.body + n.orelse:
                    for m in ast.walk(st):
                        tg = []
                        if isinstance(m, ast.Assign):
                            tg = m.targets
                        elif isinstance(m, (ast.AugAssign, ast.AnnAssign)):
                            tg = [m.target]
                        for t in tg:
                            for name, _ in self._targets(t):
                                self.ctrl.setdefault(name, set()).update(tn)

    # -- reads ---------------------------------------------------------------------------
    def names(self, *exprs: ast.AST) -> set[str]:
        """Names read by the expressions; metadata reads of the field (F.dtype, ...) do not count, and
        the test of a recognised sign idiom is accounted for by the sign variable itself."""
        out = set()
        for e in exprs:
            stack = [e]
            while stack:
                n = stack.pop()
                if id(n) in self.idiom_nodes:
                    if isinstance(n, ast.If):
                        stack.extend(n.body)
                    continue
                if isinstance(n, ast.Attribute) and n.attr in META_ATTRS and isinstance(n.value, ast.Name) and n.value.id == self.field:
                    continue
                if isinstance(n, ast.Name) and isinstance(n.ctx, ast.Load):
                    out.add(n.id)
                stack.extend(ast.iter_child_nodes(n))
        return out

    def closure(self, *exprs: ast.AST) -> dict[str, str]:
        """Transitive def-use closure: name -> the name it was reached from ('' for direct reads).
        The field name and sign variables are not expanded (their own flow is checked separately)."""
        seen: dict[str, str] = {}
        work = [(n, "") for n in self.names(*exprs)]
        stop = {self.field} | self.sgn | ({self.inv} if self.inv else set())
        while work:
            n, via = work.pop()
            if n in seen:
                continue
            seen[n] = via
            if n in stop:
                continue
            for d in self.names(*self.defs.get(n, [])):
                work.append((d, n))
            for d in self.ctrl.get(n, ()):
                work.append((d, n))
        return seen

    def ctrl_tainted(self, name: str) -> bool:
        """Is the (single) definition of `name` control-dependent on the field / `inverse` / a sign?"""
        tests = self.ctrl.get(name, set())
        if not tests:
            return False
        stop = {self.field} | self.sgn | ({self.inv} if self.inv else set())
        seen, work = set(), list(tests)
        while work:
            n = work.pop()
            if n in seen:
                continue
            seen.add(n)
            if n in stop:
                return True
            work.extend(self.names(*self.defs.get(n, [])))
            work.extend(self.ctrl.get(n, ()))
        return False

    def path(self, clo: dict[str, str], name: str) -> str:
        p = [name]
        while clo.get(p[-1]):
            p.append(clo[p[-1]])
        return " <- ".join(p)


def _flatten_product(e: ast.expr, ff: "FuncFlow | None" = None, depth: int = 0) -> list[ast.expr]:
    if isinstance(e, ast.BinOp) and isinstance(e.op, ast.Mult):
        return _flatten_product(e.left, ff, depth) + _flatten_product(e.right, ff, depth)
    if isinstance(e, ast.UnaryOp) and isinstance(e.op, (ast.USub, ast.UAdd)):
        return _flatten_product(e.operand, ff, depth)
    if ff is not None and depth < 8 and isinstance(e, ast.Name) and e.id not in ff.sgn and e.id != ff.field:
        # a local temporary with a single plain definition that mentions a sign: look through it
        d = ff.defs.get(e.id, [])
        if len(d) == 1 and isinstance(d[0], ast.expr) and ff.names(d[0]) & ff.sgn and not ff.ctrl_tainted(e.id):
            return _flatten_product(d[0], ff, depth + 1)
    return [e]


class InjectionAnalysis:
    def __init__(self, index):
        self.ix = index
        self.verdicts: list[Verdict] = []
        self.units: list[str] = []
        self.add_sites = 0
        self._done: set[tuple] = set()

    # ------------------------------------------------------------------------------------
    def method(self, fi: FunctionInfo):
        """Analyse update_E / update_H of a Source class."""
        params = [a.arg for a in fi.node.args.args]
        if len(params) < 2 or "inverse" not in params:
            raise AnalysisError(f"{fi.qualname}: signature without field / `inverse` parameter")
        self._function(fi, params[1], "inverse", set())

    def _function(self, fi: FunctionInfo, field: str, inv: str | None, seeds: set[str]):
        key = (fi.qualname, field, inv, tuple(sorted(seeds)))
        if key in self._done:
            return
        self._done.add(key)
        self.units.append(fi.where())
        ff = FuncFlow(fi.node, field, inv, seeds)
        q = fi.qualname
        forbidden = {field} | ff.sgn | ({inv} if inv else set())

        def v(suffix, ok, detail, extracted="", oracle=""):
            self.verdicts.append(Verdict(f"{q}:{suffix}", ok, detail, extracted, oracle))

        # returns controlled by `inverse` / a sign
        for n in ast.walk(fi.node):
            if isinstance(n, ast.Return):
                p = ff.parent.get(n)
                while p is not None and p is not fi.node:
                    if isinstance(p, (ast.If, ast.While)) and id(p) not in ff.idiom_nodes:
                        bad = ff.names(p.test) & (ff.sgn | ({inv} if inv else set()))
                        if bad:
                            v("return", False, "a return is controlled by `inverse`: the inverse call does not undo the forward injection", ast.unparse(p.test), "injection independent of `inverse` except for the sign")
                    p = ff.parent.get(p)
        if inv is not None and not ff.sgn:
            reads = [n for n in ast.walk(fi.node) if isinstance(n, ast.Name) and n.id == inv and isinstance(n.ctx, ast.Load)]
            injects = any(isinstance(n, ast.Name) and n.id == field and isinstance(n.ctx, ast.Load) and not isinstance(ff.parent.get(n), ast.Return) and not (isinstance(ff.parent.get(n), ast.Attribute) and ff.parent[n].attr in META_ATTRS) for n in ast.walk(fi.node))
            if reads and injects:
                raise AnalysisError(f"{q}: `inverse` is read but not through a recognised sign idiom")
            if injects:
                v("sign", False, "`inverse` is never read: forward and inverse calls inject the same value", "no read of `inverse`", "s = A if inverse else -A  or  if inverse: s = -s")
                return
        elif inv is not None:
            v("sign", True, "`inverse` is turned into a sign by  s = A if inverse else -A  or  if inverse: s = -s", sorted(ff.sgn), "at least one sign variable")
        # every read of the field
        k = 0
        for n in ast.walk(fi.node):
            if not (isinstance(n, ast.Name) and n.id == field and isinstance(n.ctx, ast.Load)):
                continue
            p = ff.parent.get(n)
            if isinstance(p, ast.Attribute) and p.attr in META_ATTRS:
                continue
            if isinstance(p, ast.Return):
                continue
            if isinstance(p, ast.Attribute) and p.attr == "at":
                sub = ff.parent.get(p)
                modeattr = ff.parent.get(sub) if isinstance(sub, ast.Subscript) else None
                call = ff.parent.get(modeattr) if isinstance(modeattr, ast.Attribute) else None
                if not (isinstance(call, ast.Call) and call.func is modeattr and modeattr.attr in AT_MODES and len(call.args) >= 1):
                    raise AnalysisError(f"{q}: unrecognised use of {field}.at")
                self._bound_to_field(ff, call, q)
                k += 1
                self.add_sites += 1
                site = f"inject#{k}"
                if modeattr.attr != "add":
                    v(site, False, f"the field is updated with .{modeattr.attr}(), which a sign flip cannot undo", ast.unparse(call)[:200], f"{field}.at[...].add(sign * term)")
                    continue
                term = call.args[0]
                idx_clo = ff.closure(sub.slice)
                bad_idx = sorted(set(idx_clo) & forbidden)
                if bad_idx:
                    v(site, False, "the injection region depends on the field / `inverse`", ff.path(idx_clo, bad_idx[0]), "region independent of field and `inverse`")
                    continue
                factors = _flatten_product(term, ff)
                signs = [f for f in factors if isinstance(f, ast.Name) and f.id in ff.sgn]
                rest = [f for f in factors if not (isinstance(f, ast.Name) and f.id in ff.sgn)]
                clo = ff.closure(*rest) if rest else {}
                bad = sorted(set(clo) & forbidden)
                if len(signs) == 0:
                    if set(bad) & (ff.sgn | ({inv} if inv else set())):
                        raise AnalysisError(f"{q}: injected term `{ast.unparse(term)[:80]}` depends on the sign in an unrecognised shape")
                    v(site, False, "the injected term carries no `inverse`-controlled sign, so forward and inverse calls inject the same value", ast.unparse(term)[:200], "sign * term")
                    continue
                if len(signs) == 2:
                    v(site, False, "the sign enters the injected term twice and cancels", ast.unparse(term)[:200], "sign * term")
                    continue
                if len(signs) > 2:
                    raise AnalysisError(f"{q}: sign variable occurs {len(signs)} times in `{ast.unparse(term)[:80]}`")
                if bad:
                    what = "the field itself" if bad[0] == field else "`inverse`"
                    v(site, False, f"the injected magnitude depends on {what} (def-use path {ff.path(clo, bad[0])})", ast.unparse(term)[:200], "sign * (term independent of the field and of `inverse`)")
                    continue
                v(site, True, "additive injection sign * term; term and region independent of the field and of `inverse`", ast.unparse(term)[:120], "sign * term")
                continue
            if isinstance(p, ast.Call) and p.args and p.args[0] is n:
                callee = self._resolve(fi, p.func)
                if callee is None:
                    raise AnalysisError(f"{q}: field passed to an unresolved callee `{ast.unparse(p.func)}`")
                self._bound_to_field(ff, p, q)
                cparams = [a.arg for a in callee.node.args.args + callee.node.args.kwonlyargs]
                if not cparams:
                    raise AnalysisError(f"{callee.qualname}: no parameters")
                seeds2 = set()
                k += 1
                site = f"call#{k}:{callee.name}"
                ok_args = True
                for pos, a in enumerate(p.args[1:], start=1):
                    if pos >= len(callee.node.args.args):
                        raise AnalysisError(f"{q}: too many positional arguments for {callee.name}")
                    ok_args &= self._arg(ff, a, callee.node.args.args[pos].arg, seeds2, forbidden, v, site)
                for kw in p.keywords:
                    if kw.arg is None or kw.arg not in cparams:
                        raise AnalysisError(f"{q}: cannot bind keyword `{kw.arg}` of {callee.name}")
                    ok_args &= self._arg(ff, kw.value, kw.arg, seeds2, forbidden, v, site)
                if ok_args:
                    v(site, True, "field handed to a helper; its other arguments are independent of the field and of `inverse` except the sign", sorted(seeds2), "sign passed as such")
                self._function(callee, cparams[0], None, seeds2)
                continue
            # a plain value read: harmless unless it flows into an injected term / region (caught by the
            # def-use closure above) or builds the new field in a form this rule does not know
            st = p
            while st is not None and not isinstance(st, ast.stmt):
                st = ff.parent.get(st)
            rebinding = isinstance(st, ast.Return) or (isinstance(st, (ast.Assign, ast.AugAssign, ast.AnnAssign)) and any(name == field for t in (st.targets if isinstance(st, ast.Assign) else [st.target]) for name, _ in ff._targets(t)))
            if rebinding:
                raise AnalysisError(f"{q}: the field is rebuilt in an unrecognised form `{ast.unparse(st)[:80]}`")

    def _arg(self, ff: FuncFlow, value: ast.expr, pname: str, seeds2: set, forbidden: set, v, site) -> bool:
        if isinstance(value, ast.Name) and value.id in ff.sgn:
            seeds2.add(pname)
            return True
        clo = ff.closure(value)
        bad = sorted(set(clo) & forbidden)
        if bad:
            v(site, False, f"argument `{pname}` of the injection helper depends on the field / `inverse` (def-use path {ff.path(clo, bad[0])})", ast.unparse(value)[:160], "arguments independent of the field and of `inverse`, sign passed as such")
            return False
        return True

    def _bound_to_field(self, ff: FuncFlow, call: ast.Call, q: str):
        """The updated array must be re-bound to the field name or returned."""
        p = ff.parent.get(call)
        if isinstance(p, ast.Return):
            return
        if isinstance(p, ast.Assign) and len(p.targets) == 1 and isinstance(p.targets[0], ast.Name) and p.targets[0].id == ff.field:
            return
        raise AnalysisError(f"{q}: result of the field update is neither re-bound to `{ff.field}` nor returned")

    def _resolve(self, fi: FunctionInfo, func: ast.expr) -> FunctionInfo | None:
        if isinstance(func, ast.Name):
            r = self.ix.resolve_name(fi.module, func.id)
            return r if isinstance(r, FunctionInfo) else None
        return None
