"""Value classes of the abstract interpreter (absint.py)."""

from __future__ import annotations

from .index import AnalysisError, ClassInfo, FunctionInfo
from .poly import Rat


class Raised(Exception):
    """A `raise` statement of the analysed program was reached on this path."""

    def __init__(self, exc_name: str, msg: str = "", where: str = ""):
        super().__init__(f"{exc_name}: {msg}")
        self.exc_name = exc_name
        self.msg = msg
        self.where = where


class AbsVal:
    """Base class of abstract (non-native) values. Subclasses override av_*."""

    def av_binop(self, op: str, other, reflected: bool):
        raise AnalysisError(f"{type(self).__name__}: unsupported binop {op}")

    def av_unop(self, op: str):
        raise AnalysisError(f"{type(self).__name__}: unsupported unop {op}")

    def av_getitem(self, idx):
        raise AnalysisError(f"{type(self).__name__}: unsupported subscript {idx!r}")

    def av_getattr(self, name: str):
        raise AnalysisError(f"{type(self).__name__}: unsupported attribute {name}")

    def av_compare(self, op: str, other, reflected: bool):
        raise AnalysisError(f"{type(self).__name__}: unsupported compare {op}")

    def av_truth(self):
        raise AnalysisError(f"{type(self).__name__}: truth value unknown")

    def av_ext(self, name: str, args, kwargs, interp=None):
        """external (jnp/np) function applied with this value among the args;
        return NotImplemented to fall through."""
        return NotImplemented


class Obj(AbsVal):
    """Abstract instance of a repo class (or a free-form record when cls is None)."""

    def __init__(self, cls: ClassInfo | None, attrs: dict | None = None, label: str = "obj", open_attrs: bool = False):
        self.cls = cls
        self.attrs = dict(attrs or {})
        self.label = label
        # open_attrs: unknown attributes become symbolic atoms `label.name`
        self.open_attrs = open_attrs

    def replace(self, **kw):
        o = Obj(self.cls, self.attrs, self.label, self.open_attrs)
        o.attrs.update(kw)
        return o

    def __repr__(self):
        return f"<Obj {self.cls.name if self.cls else 'record'} {self.label}>"


class Closure:
    def __init__(self, node, env, module, cls: ClassInfo | None = None, qualname: str = "", finfo: FunctionInfo | None = None):
        self.node = node
        self.env = env
        self.module = module
        self.cls = cls
        self.qualname = qualname
        self.finfo = finfo

    def __repr__(self):
        return f"<Closure {self.qualname}>"


class Bound:
    def __init__(self, self_obj, func: Closure):
        self.self_obj = self_obj
        self.func = func

    def __repr__(self):
        return f"<Bound {self.func.qualname}>"


class Partial:
    def __init__(self, func, args, kwargs):
        self.func = func
        self.args = list(args)
        self.kwargs = dict(kwargs)


class ClassRef:
    def __init__(self, ci: ClassInfo):
        self.ci = ci

    def __repr__(self):
        return f"<ClassRef {self.ci.qualname}>"

    def __eq__(self, o):
        return isinstance(o, ClassRef) and o.ci is self.ci

    def __hash__(self):
        return hash(("ClassRef", self.ci.qualname))


class RepoMod:
    def __init__(self, name: str):
        self.name = name

    def __repr__(self):
        return f"<RepoMod {self.name}>"


class ExtRef:
    """A dotted name outside the repo (module, function or class)."""

    def __init__(self, name: str):
        self.name = name

    def __repr__(self):
        return f"<Ext {self.name}>"

    def __eq__(self, o):
        return isinstance(o, ExtRef) and o.name == self.name

    def __hash__(self):
        return hash(("ExtRef", self.name))


class Builtin:
    def __init__(self, name: str, fn):
        self.name = name
        self.fn = fn

    def __repr__(self):
        return f"<Builtin {self.name}>"


class Unknown(AbsVal):
    """Opaque non-numeric value (strings built from unknowns, foreign objects)."""

    def __init__(self, label: str):
        self.label = label

    def __repr__(self):
        return f"<Unknown {self.label}>"

    def av_getattr(self, name):
        return Unknown(f"{self.label}.{name}")


class SymBool(AbsVal):
    """A boolean whose value is not known; identified by a hashable key."""

    def __init__(self, key, negated: bool = False):
        self.key = key
        self.negated = negated

    def av_unop(self, op):
        if op == "not" or op == "invert":
            return SymBool(self.key, not self.negated)
        raise AnalysisError(f"SymBool unop {op}")

    def av_binop(self, op, other, reflected):
        if op in ("and", "or", "bitand", "bitor"):
            if isinstance(other, bool):
                if op in ("and", "bitand"):
                    return self if other else False
                return True if other else self
            if isinstance(other, SymBool):
                k = ("and" if op in ("and", "bitand") else "or",) + tuple(
                    sorted([self.fullkey(), other.fullkey()], key=repr)
                )
                return SymBool(k)
        raise AnalysisError(f"SymBool binop {op} with {other!r}")

    def fullkey(self):
        return ("not", self.key) if self.negated else self.key

    def ind(self) -> Rat:
        a = Rat.atom(("ind", self.key))
        return (1 - a) if self.negated else a

    def __repr__(self):
        return f"<SymBool {'!' if self.negated else ''}{self.key!r}>"


def is_numeric(v) -> bool:
    return isinstance(v, (int, float, complex, Rat)) and not isinstance(v, bool) or isinstance(v, bool)


def to_rat(v) -> Rat:
    if isinstance(v, SymBool):
        return v.ind()
    return Rat.lift(v)


def sb_leaves(v, out=None) -> set:
    """Leaf keys of a boolean formula built from SymBools."""
    if out is None:
        out = set()
    if isinstance(v, SymBool):
        _key_leaves(v.key, out)
    return out


def _key_leaves(k, out):
    if isinstance(k, tuple) and k and k[0] in ("and", "or") and all(isinstance(x, tuple) for x in k[1:]):
        for x in k[1:]:
            _key_leaves(x, out)
    elif isinstance(k, tuple) and k and k[0] == "not" and len(k) == 2:
        _key_leaves(k[1], out)
    else:
        out.add(k)


def sb_eval(v, assign: dict) -> bool:
    """Evaluate a boolean formula under an assignment of its leaves."""
    if isinstance(v, bool):
        return v
    if isinstance(v, SymBool):
        r = _key_eval(v.key, assign)
        return (not r) if v.negated else r
    raise AnalysisError(f"sb_eval of {v!r}")


def _key_eval(k, assign):
    if isinstance(k, tuple) and k and k[0] in ("and", "or") and all(isinstance(x, tuple) for x in k[1:]):
        vals = [_key_eval(x, assign) for x in k[1:]]
        return all(vals) if k[0] == "and" else any(vals)
    if isinstance(k, tuple) and k and k[0] == "not" and len(k) == 2:
        return not _key_eval(k[1], assign)
    if k not in assign:
        raise AnalysisError(f"unassigned boolean leaf {k!r}")
    return assign[k]


def sb_and(a, b):
    if isinstance(a, bool):
        return b if a else False
    if isinstance(b, bool):
        return a if b else False
    return a.av_binop("and", b, False)


def sb_or(a, b):
    if isinstance(a, bool):
        return True if a else b
    if isinstance(b, bool):
        return True if b else a
    return a.av_binop("or", b, False)


def sb_not(a):
    if isinstance(a, bool):
        return not a
    return a.av_unop("not")
