"""Symbolic harness for the total-field/scattered-field sources (shared by C08, C10, C13).

The repo's own TFSFPlaneSource.update_E / update_H (and the box source's) are interpreted on a symbolic
plane: incident field components, Yee time offsets, amplitude factor, materials and the face position are
atoms; the temporal profile is an opaque function amp(time, phase)."""

from __future__ import annotations

from fractions import Fraction

from .arrays import SymVec
from .index import AnalysisError
from .ndarr import NdArr
from .poly import Rat
from .scene import Scene, vec
from .values import Builtin, Obj, to_rat

AX = "xyz"


def _sc0(v):
    return to_rat(v.data[0] if isinstance(v, NdArr) and len(v.data) == 1 and not v.sp else v)


def _amp(it_, a, k):
    return Rat.atom(("call", "amp", _sc0(k.get("time", a[0] if a else None)), _sc0(k.get("phase_shift", 0))))


def _interp(it_, a, k):
    # jnp.interp(idx, xp, filter, left=0, right=0): opaque linear-interpolated table lookup
    fp = a[2]
    return Rat.atom(("call", "interp", _sc0(a[0]), getattr(fp, "name", "filter")))


def common(it, complex_inc, tag=""):
    it.ext_handlers["np.iscomplexobj"] = lambda it_, a, k: complex_inc
    it.ext_handlers["np.interp"] = _interp
    old_arange = it.ext_handlers.get("np.arange")

    def arange(it_, a, k):
        if len(a) == 1 and isinstance(a[0], Rat) and not a[0].is_const():
            return SymVec("arange", a[0])  # sample positions of the filtered profile (symbolic length)
        return old_arange(it_, a, k)

    it.ext_handlers["np.arange"] = arange
    prof = Obj(None, {"get_amplitude": Builtin("get_amplitude", _amp)}, "profile")
    wc = Obj(None, {"get_period": Builtin("get_period", lambda it_, a, k: Rat.atom("period")), "phase_shift": Rat.atom("phi")}, "wave")
    if complex_inc:
        from .poly import I

        inc = lambda nm: NdArr((3,), [Rat.atom(f"{nm}r{tag}{c}") + Rat.atom(I) * Rat.atom(f"{nm}i{tag}{c}") for c in range(3)])
    else:
        inc = lambda nm: NdArr((3,), [Rat.atom(f"{nm}{tag}{c}") for c in range(3)])
    return prof, wc, inc


def materials(kind, eps_comps, mu_comps):
    F = vec(kind)
    ie = vec("ie", eps_comps)
    im = vec("im", mu_comps) if mu_comps else Fraction(7, 5)  # non-magnetic scenes carry a plain float
    return F, ie, im


def plane_update(ctx, kind, axis, direction, inverse, eps_comps, mu_comps, complex_inc=False, h_filter=False, amplitude=None):
    """Interpret TFSFPlaneSource.update_E / update_H on a symbolic plane; returns the updated field."""
    ix = ctx.index
    it = ctx.fresh_interp()
    sc = Scene(ix, it)
    from . import absint
    from . import ndarr as _nd

    names = [f"src_{AX[a]}min" for a in range(3)] + [f"src_{AX[a]}max" for a in range(3)]
    absint.INTEGER_ATOMS.update(names)
    gst = []
    for a in range(3):
        lo = Rat.atom(f"src_{AX[a]}min")
        gst.append((lo, lo + 1) if a == axis else (lo, Rat.atom(f"src_{AX[a]}max")))
    prof, wc, inc = common(it, complex_inc)
    cfg = sc.config()
    T = ix.cls("fdtdx.objects.sources.tfsf.TFSFPlaneSource")
    src = Obj(
        T,
        dict(
            name="src", direction=direction, propagation_axis=axis, _grid_slice_tuple=tuple(gst), _config=cfg,
            _E=inc("Einc"), _H=inc("Hinc"),
            _time_offset_E=NdArr((3,), [Rat.atom(f"toffE{c}") for c in range(3)]),
            _time_offset_H=NdArr((3,), [Rat.atom(f"toffH{c}") for c in range(3)]),
            _temporal_H_filter=SymVec("Hfilter", Rat.atom("T")) if h_filter else None,
            temporal_profile=prof, wave_character=wc,
            static_amplitude_factor=Rat.atom("A") if amplitude is None else amplitude,
        ),
        "src",
    )
    F, ie, im = materials(kind, eps_comps, mu_comps)
    m = T.lookup_method(f"update_{kind}")
    if m is None:
        raise AnalysisError(f"TFSFPlaneSource.update_{kind} vanished")
    ctx.unit(m.where())
    _nd.JAX_CLAMP = eps_comps == 1 or mu_comps == 1  # isotropic (1, ...) arrays are read with jnp clamping
    try:
        res = it.call_method(src, f"update_{kind}", F, ie, im, Rat.atom("t"), inverse)
    finally:
        _nd.JAX_CLAMP = False
    if not (isinstance(res, NdArr) and res.shape == (3,)):
        raise AnalysisError(f"TFSFPlaneSource.update_{kind} returned {res!r}")
    return res


def region_update(ctx, kind, inverse, eps_comps, mu_comps, faces=((0, 1), (2, -1)), h_filter=False, complex_inc=False):
    """Interpret TFSFPlaneSourceRegion.update_E / update_H with the given (normal_axis, sign) faces."""
    ix = ctx.index
    it = ctx.fresh_interp()
    sc = Scene(ix, it)
    from . import absint
    from . import ndarr as _nd

    cfg = sc.config()
    R = ix.cls("fdtdx.objects.sources.tfsf_region.TFSFPlaneSourceRegion")
    prof, wc, _ = common(it, complex_inc)
    slice_tuples, incE, incH, toffE, toffH, filt = [], [], [], [], [], []
    for i, (n, sgn) in enumerate(faces):
        names = [f"f{i}_{AX[a]}min" for a in range(3)] + [f"f{i}_{AX[a]}max" for a in range(3)]
        absint.INTEGER_ATOMS.update(names)
        st = []
        for a in range(3):
            lo = Rat.atom(f"f{i}_{AX[a]}min")
            st.append((lo, lo + 1) if a == n else (lo, Rat.atom(f"f{i}_{AX[a]}max")))
        slice_tuples.append(tuple(st))
        _, _, inc = common(it, complex_inc, tag=f"f{i}_")
        incE.append(inc("Einc"))
        incH.append(inc("Hinc"))
        toffE.append(NdArr((3,), [Rat.atom(f"toffEf{i}_{c}") for c in range(3)]))
        toffH.append(NdArr((3,), [Rat.atom(f"toffHf{i}_{c}") for c in range(3)]))
        filt.append(SymVec(f"Hfilter{i}", Rat.atom("T")) if h_filter else None)
    attrs = dict(
        name="box", _config=cfg, temporal_profile=prof, wave_character=wc, static_amplitude_factor=Rat.atom("A"),
        _face_normal_axes=tuple(n for n, _ in faces), _face_signs=tuple(s for _, s in faces),
        _face_E_slice_tuples=tuple(slice_tuples), _face_H_slice_tuples=tuple(slice_tuples),
        _face_incident_H=incH, _face_incident_E=incE, _face_time_offset_H=toffH, _face_time_offset_E=toffE,
        _face_H_filter=filt,
    )
    src = Obj(R, attrs, "box")
    F, ie, im = materials(kind, eps_comps, mu_comps)
    m = R.lookup_method(f"update_{kind}")
    if m is None:
        raise AnalysisError(f"TFSFPlaneSourceRegion.update_{kind} vanished")
    ctx.unit(m.where())
    _nd.JAX_CLAMP = eps_comps == 1 or mu_comps == 1
    try:
        res = it.call_method(src, f"update_{kind}", F, ie, im, Rat.atom("t"), inverse)
    finally:
        _nd.JAX_CLAMP = False
    if not (isinstance(res, NdArr) and res.shape == (3,)):
        raise AnalysisError(f"TFSFPlaneSourceRegion.update_{kind} returned {res!r}")
    return res
