"""Table of claimed properties -> MANIFEST.json (python -m sa.registry writes it)."""

from __future__ import annotations

import json
import os

ROOT = os.path.dirname(os.path.dirname(os.path.abspath(__file__)))

# id -> (category, level text, level note, technique, design_ref)
CLAIMED: dict[str, tuple] = {}

NOT_APPLICABLE: dict[str, str] = {
}


def claim(pid, category, text, note, technique, ref):
    CLAIMED[pid] = (category, text, note, technique, ref)


def build():
    from . import claims  # noqa: F401  (fills CLAIMED)

    props = [json.loads(l) for l in open(os.path.join(ROOT, "properties.jsonl"))]
    checks = []
    na = []
    for p in props:
        pid = p["id"]
        if pid in CLAIMED:
            cat, text, note, tech, ref = CLAIMED[pid]
            checks.append(
                {
                    "property_id": pid,
                    "quick_cmd": f"./check {pid} --tier quick",
                    "thorough_cmd": f"./check {pid} --tier thorough",
                    "evidence_file": f"/verif/evidence/{pid}.json",
                    "replay_cmd_template": f"./check {pid} --replay {{path}}",
                    "engine": "sa",
                    "level_claimed": {"category": cat, "text": text, "design_ref": ref},
                    "level_note": note,
                    "technique": tech,
                }
            )
        else:
            na.append({"property_id": pid, "reason": NOT_APPLICABLE.get(pid, "not built yet (static rules designed in DESIGN.md but no checker committed)")})
    m = {
        "version": 1,
        "setup_cmd": "/venv/bin/python -m compileall -q sa",
        "hooks": {
            "guard": "FDTDX_VERIF",
            "enable": "none needed: the checkers only parse /repo/src with the stdlib ast module; no source hooks exist",
            "baseline_off_cmd": "cd /repo && /venv/bin/python -m pytest -ra -q -p no:cacheprovider --timeout=900 --continue-on-collection-errors",
            "source_commits": [],
            "add_only": True,
        },
        "engines": [
            {
                "name": "sa",
                "path": "/verif/sa",
                "serves_properties": sorted(CLAIMED),
                "kind_free_text": "repository-specific static analysis: stdlib-ast program index (classes, MRO, imports), abstract interpreter over exact rational normal forms / symbolic booleans / interval+derivative / stencil and index-group array domains, syntax-tree and call-graph rules; nothing of fdtdx is imported or executed",
            }
        ],
        "checks": checks,
        "notes": "Static analysis only. Exit 0 = all obligations discharged; exit 1 + VIOLATION line = an extracted object contradicts its oracle (reported even if a later rule instance could not be analysed); exit 2 + ANALYSIS-ERROR = the analyser cannot decide and found no contradiction (vanished anchor, unknown idiom, vacuity guard). See DESIGN.md.",
        "not_applicable": na,
    }
    with open(os.path.join(ROOT, "MANIFEST.json"), "w") as f:
        json.dump(m, f, indent=1)
    return m


if __name__ == "__main__":
    from sa.registry import build as _build

    m = _build()
    print(f"claimed {len(m['checks'])}, not applicable {len(m['not_applicable'])}")
