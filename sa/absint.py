"""Abstract interpreter / partial evaluator over the repo's AST (engines E3/E5 glue).

Evaluates functions of the analysed program over *abstract* values: exact
rationals, rational normal forms over symbolic atoms (poly.Rat), symbolic
booleans, abstract objects and pluggable array domains (AbsVal subclasses).
Nothing of the analysed program is imported or executed by CPython: the
interpreter walks the syntax tree.  Unknown constructs raise AnalysisError
(never a verdict).  Unknown branch conditions are enumerated through a
Chooser (all paths), or pinned by the rule through `assume`.
"""

from __future__ import annotations

import ast
import math
from fractions import Fraction

from .index import AnalysisError, ClassInfo, FunctionInfo, Index, ModuleInfo
from .poly import I, Rat, apply_fn
from .values import (
    AbsVal,
    Bound,
    Builtin,
    ClassRef,
    Closure,
    ExtRef,
    Obj,
    Partial,
    Raised,
    RepoMod,
    SymBool,
    Unknown,
    to_rat,
)


class _Return(Exception):
    def __init__(self, value):
        self.value = value


class StopAfter(Exception):
    """Interpretation was asked to end after a given statement; carries the local environment."""

    def __init__(self, env):
        self.env = env


class _Break(Exception):
    pass


class _Continue(Exception):
    pass


class Env:
    __slots__ = ("vars", "parent")

    def __init__(self, parent=None, vars=None):
        self.vars = vars if vars is not None else {}
        self.parent = parent

    def lookup(self, name):
        e = self
        while e is not None:
            if name in e.vars:
                return True, e.vars[name]
            e = e.parent
        return False, None

    def set(self, name, value):
        self.vars[name] = value


class Chooser:
    """Enumerates all resolutions of unknown branch conditions by re-execution."""

    def __init__(self, limit=4096):
        self.script: list[int] = []
        self.log: list[tuple] = []
        self.limit = limit

    def begin(self):
        self.log = []

    def choose(self, key, n=2) -> int:
        pos = len(self.log)
        # the same unknown asked twice on one path gets the same answer
        for k, c, _ in self.log:
            if k == key:
                self.log.append((key, c, 1))
                return c
        c = self.script[pos] if pos < len(self.script) else 0
        self.log.append((key, c, n))
        return c

    def advance(self) -> bool:
        log = list(self.log)
        while log and log[-1][1] >= log[-1][2] - 1:
            log.pop()
        if not log:
            return False
        self.script = [c for _, c, _ in log]
        self.script[-1] += 1
        return True


def num(x):
    """Literal -> exact number."""
    if isinstance(x, float):
        if x != x or x in (math.inf, -math.inf):
            return x
        return Fraction(repr(x))
    return x


def is_native_number(v):
    return isinstance(v, (int, float, Fraction, complex)) and not isinstance(v, bool)


_BINOPS = {
    ast.Add: "add",
    ast.Sub: "sub",
    ast.Mult: "mul",
    ast.Div: "div",
    ast.FloorDiv: "floordiv",
    ast.Mod: "mod",
    ast.Pow: "pow",
    ast.MatMult: "matmul",
    ast.BitAnd: "bitand",
    ast.BitOr: "bitor",
    ast.BitXor: "bitxor",
    ast.LShift: "lshift",
    ast.RShift: "rshift",
}
_CMPOPS = {
    ast.Eq: "eq",
    ast.NotEq: "ne",
    ast.Lt: "lt",
    ast.LtE: "le",
    ast.Gt: "gt",
    ast.GtE: "ge",
    ast.Is: "is",
    ast.IsNot: "isnot",
    ast.In: "in",
    ast.NotIn: "notin",
}
_SWAP = {"lt": "gt", "gt": "lt", "le": "ge", "ge": "le", "eq": "eq", "ne": "ne"}

EXT_ALIASES = (
    ("jax.numpy.", "np."),
    ("numpy.", "np."),
    ("jnp.", "np."),
    ("jax.lax.", "lax."),
    ("equinox.internal.", "eqxi."),
)


def canon_ext(name: str) -> str:
    for a, b in EXT_ALIASES:
        if name.startswith(a):
            return b + name[len(a) :]
    if name in ("jax.numpy", "numpy"):
        return "np"
    if name == "jax.lax":
        return "lax"
    return name


class TypeUnion(tuple):
    """X | Y | ... of type expressions."""


class Interp:
    def __init__(self, index: Index, max_depth: int = 40, step_limit: int = 2_000_000):
        self.index = index
        self.max_depth = max_depth
        self.depth = 0
        self.steps = 0
        self.step_limit = step_limit
        self.chooser: Chooser | None = None
        self.assume: dict = {}  # SymBool key -> bool
        self.module_envs: dict[str, Env] = {}
        self.ext_handlers: dict[str, object] = {}
        self.ext_overrides: dict[str, object] = {}
        self.attr_hooks: list = []  # fn(interp, obj, name) -> value | NotImplemented
        self.call_hooks: list = []  # fn(interp, callee, args, kwargs) -> value | NotImplemented
        self.ext_fallback = None  # fn(interp, name, args, kwargs) -> value | NotImplemented
        self.trace_calls: list[str] = []
        self.stop_after: set = set()  # id(statement node): interpretation ends after it (prefix slicing)
        self.assumptions: list[str] = []
        self.field_helpers = {"field", "frozen_field", "private_field", "frozen_private_field"}
        from . import extlib

        extlib.install(self)

    # ------------------------------------------------------------------ envs
    def module_env(self, mi: ModuleInfo) -> Env:
        if mi.name not in self.module_envs:
            self.module_envs[mi.name] = Env(None, {"__module__": mi})
        return self.module_envs[mi.name]

    def lookup_global(self, mi: ModuleInfo, name: str):
        env = self.module_env(mi)
        if name in env.vars:
            return env.vars[name]
        r = self.index.resolve_name(mi, name)
        if r is None:
            if name in BUILTINS:
                return BUILTINS[name]
            raise AnalysisError(f"unresolved name {name!r} in {mi.name}")
        v = self._wrap_resolved(r)
        env.vars[name] = v
        return v

    def _wrap_resolved(self, r):
        if isinstance(r, FunctionInfo):
            self.index.consulted[r.module.relpath] = r.module.digest
            return Closure(r.node, self.module_env(r.module), r.module, r.cls, r.qualname, r)
        if isinstance(r, ClassInfo):
            self.index.consulted[r.module.relpath] = r.module.digest
            return ClassRef(r)
        if isinstance(r, tuple):
            if r[0] == "module":
                if r[1] in self.index.modules:
                    return RepoMod(r[1])
                return ExtRef(r[1])
            if r[0] == "external":
                return ExtRef(f"{r[1]}.{r[2]}")
            if r[0] == "assign":
                _, mi, node = r
                self.index.consulted[mi.relpath] = mi.digest
                return self.eval(node, self.module_env(mi))
        raise AnalysisError(f"cannot wrap {r!r}")

    def closure_of(self, finfo: FunctionInfo) -> Closure:
        return self._wrap_resolved(finfo)

    # ------------------------------------------------------------- decisions
    def decide(self, v, node=None) -> bool:
        if isinstance(v, bool):
            return v
        if v is None:
            return False
        if isinstance(v, (int, float, Fraction, complex, str, tuple, list, dict, set, frozenset, range)):
            return bool(v)
        if isinstance(v, Rat):
            if v.is_const():
                return v.const_value() != 0
            v = SymBool(("nz", v.key()))
        if isinstance(v, SymBool):
            if v.key in self.assume:
                r = self.assume[v.key]
                return (not r) if v.negated else r
            kn = self.known(v)
            if kn is not None:
                return kn
            if self.chooser is None:
                raise AnalysisError(f"undecidable condition {v!r} at line {getattr(node, 'lineno', '?')}")
            c = self.chooser.choose(v.key)
            r = c == 0  # first explore the true branch
            return (not r) if v.negated else r
        if isinstance(v, AbsVal):
            t = v.av_truth()
            if isinstance(t, bool):
                return t
            return self.decide(t, node)
        if isinstance(v, (Closure, Bound, ClassRef, Builtin, ExtRef, RepoMod, Partial)):
            return True
        raise AnalysisError(f"cannot decide truth of {v!r}")

    def known(self, v):
        """Truth value of a boolean formula all of whose leaves are assumed, else None."""
        if isinstance(v, bool):
            return v
        if not isinstance(v, SymBool) or not self.assume:
            return None
        from .values import sb_eval, sb_leaves

        leaves = sb_leaves(v)
        if leaves and all(l in self.assume for l in leaves):
            return sb_eval(v, self.assume)
        return None

    def explore(self, thunk, limit=4096):
        """Run thunk under every resolution of unknown conditions.
        Yields (path, outcome) where outcome is ('ok', value) or ('raise', Raised)."""
        old = self.chooser
        ch = Chooser(limit)
        self.chooser = ch
        n = 0
        try:
            while True:
                ch.begin()
                try:
                    out = ("ok", thunk())
                except Raised as r:
                    out = ("raise", r)
                yield [(k, c) for k, c, _ in ch.log], out
                n += 1
                if n > limit:
                    raise AnalysisError("too many paths")
                if not ch.advance():
                    break
        finally:
            self.chooser = old

    # ---------------------------------------------------------------- calls
    def call(self, callee, args=(), kwargs=None, node=None):
        kwargs = kwargs or {}
        for h in self.call_hooks:
            r = h(self, callee, args, kwargs)
            if r is not NotImplemented:
                return r
        if isinstance(callee, Closure):
            return self.call_closure(callee, list(args), kwargs)
        if isinstance(callee, Bound):
            return self.call_closure(callee.func, [callee.self_obj] + list(args), kwargs)
        if isinstance(callee, Builtin):
            return callee.fn(self, list(args), kwargs)
        if isinstance(callee, Obj):  # instance with __call__
            return self.call(self.getattr(callee, "__call__"), args, kwargs, node)
        if isinstance(callee, Partial):
            kw = dict(callee.kwargs)
            kw.update(kwargs)
            return self.call(callee.func, callee.args + list(args), kw)
        if isinstance(callee, ClassRef):
            return self.instantiate(callee.ci, list(args), kwargs)
        if isinstance(callee, ExtRef):
            return self.call_ext(callee.name, list(args), kwargs)
        if isinstance(callee, type) and callee in (int, float, str, bool, tuple, list, dict, set, slice):
            return callee(*args, **kwargs)
        raise AnalysisError(f"cannot call {callee!r} at line {getattr(node, 'lineno', '?')}")

    def call_function(self, qualname: str, *args, **kwargs):
        fi = self.index.function(qualname)
        return self.call(self.closure_of(fi), args, kwargs)

    def call_method(self, obj: Obj, name: str, *args, **kwargs):
        return self.call(self.getattr(obj, name), args, kwargs)

    def call_closure(self, clo: Closure, args: list, kwargs: dict):
        node = clo.node
        self.depth += 1
        if self.depth > self.max_depth:
            self.depth -= 1
            raise AnalysisError(f"call depth exceeded in {clo.qualname}")
        if clo.qualname:
            self.trace_calls.append(clo.qualname)
        # a memoising decorator gives the function state across calls; dropping it silently would be unsound, so a
        # check that interprets such a function must model it (allow_memoised names the ones it has modelled)
        if not isinstance(node, ast.Lambda) and getattr(node, "decorator_list", None):
            for d_ in node.decorator_list:
                txt = ast.unparse(d_)
                if ("lru_cache" in txt or txt.split("(")[0].split(".")[-1] == "cache") and getattr(self, "allow_memoised", ()) is not True and clo.qualname not in getattr(self, "allow_memoised", ()):
                    self.depth -= 1
                    raise AnalysisError(f"{clo.qualname or node.name} is memoised ({txt}): interpreting it as a plain function would ignore state kept between calls")
        try:
            env = Env(clo.env)
            if clo.cls is not None:
                env.vars["__class__"] = clo.cls
            self.bind_args(node.args, args, kwargs, env, clo)
            if isinstance(node, ast.Lambda):
                return self.eval(node.body, env)
            is_gen = _is_generator(node)
            if is_gen:
                env.vars["__yield__"] = []
            try:
                self.exec_block(node.body, env)
            except _Return as r:
                if is_gen:
                    return env.vars["__yield__"]
                return r.value
            if is_gen:
                return env.vars["__yield__"]
            return None
        finally:
            self.depth -= 1

    def bind_args(self, a: ast.arguments, args: list, kwargs: dict, env: Env, clo: Closure):
        params = [p.arg for p in a.posonlyargs + a.args]
        defaults = a.defaults
        ndef = len(defaults)
        kwargs = dict(kwargs)
        n = len(params)
        if len(args) > n and a.vararg is None:
            raise AnalysisError(f"too many positional args for {clo.qualname}")
        for i, p in enumerate(params):
            if i < len(args):
                if p in kwargs:
                    raise AnalysisError(f"duplicate arg {p} for {clo.qualname}")
                env.vars[p] = args[i]
            elif p in kwargs:
                env.vars[p] = kwargs.pop(p)
            else:
                di = i - (n - ndef)
                if di < 0:
                    raise AnalysisError(f"missing argument {p!r} calling {clo.qualname}")
                env.vars[p] = self.eval(defaults[di], clo.env)
        if a.vararg is not None:
            env.vars[a.vararg.arg] = tuple(args[n:])
        for p, d in zip(a.kwonlyargs, a.kw_defaults):
            if p.arg in kwargs:
                env.vars[p.arg] = kwargs.pop(p.arg)
            elif d is not None:
                env.vars[p.arg] = self.eval(d, clo.env)
            else:
                raise AnalysisError(f"missing kw-only argument {p.arg!r} calling {clo.qualname}")
        if a.kwarg is not None:
            env.vars[a.kwarg.arg] = kwargs
        elif kwargs:
            raise AnalysisError(f"unexpected keyword(s) {sorted(kwargs)} calling {clo.qualname}")

    def instantiate(self, ci: ClassInfo, args: list, kwargs: dict) -> Obj:
        init = ci.lookup_method("__init__")
        obj = Obj(ci, {}, label=ci.name)
        if init is not None:
            self.call(Bound(obj, self.closure_of(init)), args, kwargs)
            return obj
        if args:
            # positional dataclass-like construction in field order
            names = [k for k, (c, (ann, val)) in ci.all_fields().items() if ann is not None]
            for n_, v in zip(names, args):
                kwargs = dict(kwargs)
                kwargs[n_] = v
        obj.attrs.update(kwargs)
        post = ci.lookup_method("__post_init__")
        if post is not None:
            self.call(Bound(obj, self.closure_of(post)), [], {})
        return obj

    def call_ext(self, name: str, args: list, kwargs: dict):
        cname = canon_ext(name)
        h = self.ext_overrides.get(cname)
        if h is not None:  # rule-supplied model that takes precedence over the array domains' own
            r = h(self, args, kwargs)
            if r is not NotImplemented:
                return r
        for v in list(args) + list(kwargs.values()):
            cands = v if isinstance(v, (list, tuple)) else [v]
            for c in cands:
                if isinstance(c, AbsVal):
                    r = c.av_ext(cname, args, kwargs, self)
                    if r is not NotImplemented:
                        return r
        h = self.ext_handlers.get(cname)
        if h is not None:
            r = h(self, args, kwargs)
            if r is not NotImplemented:
                return r
        if self.ext_fallback is not None:
            r = self.ext_fallback(self, cname, args, kwargs)
            if r is not NotImplemented:
                return r
        raise AnalysisError(f"no model for external call {cname}({', '.join(type(a).__name__ for a in args)})")

    # ----------------------------------------------------------- attributes
    def getattr(self, v, name: str, node=None):
        if isinstance(v, Obj):
            return self.obj_getattr(v, name)
        if isinstance(v, RepoMod):
            full = f"{v.name}.{name}"
            if full in self.index.modules:
                return RepoMod(full)
            return self.lookup_global(self.index.module(v.name), name)
        if isinstance(v, ExtRef):
            full = f"{v.name}.{name}"
            c = canon_ext(full)
            if c in EXT_CONSTANTS:
                return EXT_CONSTANTS[c]
            return ExtRef(full)
        if isinstance(v, ClassRef) and name in ("__name__", "__qualname__", "__module__"):
            return v.ci.module.name if name == "__module__" else v.ci.name
        if isinstance(v, Builtin) and name in ("__name__", "__qualname__", "__module__"):
            return "builtins" if name == "__module__" else v.name
        if isinstance(v, ClassRef):
            m = v.ci.lookup_method(name)
            if m is not None:
                clo = self.closure_of(m)
                if m.is_classmethod:
                    return Bound(v, clo)
                return clo
            f = v.ci.lookup_field(name)
            if f is not None:
                c, (ann, val) = f
                if val is not None:
                    return self.eval(val, self.module_env(c.module))
            raise AnalysisError(f"class attribute {v.ci.name}.{name} unknown")
        if isinstance(v, AbsVal):
            r = v.av_getattr(name)
            if isinstance(r, tuple) and len(r) == 2 and r[0] == "__ext__":
                return self.call_ext(r[1], [v], {})
            return r
        if isinstance(v, Rat) or is_native_number(v):
            return scalar_attr(self, v, name)
        if isinstance(v, (str, tuple, list, dict, set, slice, range, frozenset)):
            return native_method(self, v, name)
        if isinstance(v, Builtin) and v.name == "object" and name == "__setattr__":
            def _setattr(it, a, k):
                if not isinstance(a[0], Obj):
                    raise AnalysisError("object.__setattr__ on non-object")
                a[0].attrs[a[1]] = a[2]
                return None

            return Builtin("object.__setattr__", _setattr)
        if isinstance(v, Closure) and name == "__name__":
            return v.node.name if hasattr(v.node, "name") else "<lambda>"
        if isinstance(v, Partial) and name == "func":
            return v.func
        raise AnalysisError(f"attribute {name!r} of {type(v).__name__} at line {getattr(node, 'lineno', '?')}")

    def obj_getattr(self, obj: Obj, name: str):
        if name in obj.attrs:
            return obj.attrs[name]
        for h in self.attr_hooks:
            r = h(self, obj, name)
            if r is not NotImplemented:
                return r
        if name == "aset":
            return Builtin("aset", lambda it, a, k, _o=obj: tree_aset(it, _o, *a, **k))
        if name == "at" and obj.cls is not None and obj.cls.is_subclass_of("TreeClass"):
            return TreeAt(obj)  # pytreeclass functional attribute update: obj.at["field"].set(value)
        if name == "__class__":
            return ClassRef(obj.cls) if obj.cls else Unknown("class")
        if obj.cls is not None:
            m = obj.cls.lookup_method(name)
            if m is not None:
                clo = self.closure_of(m)
                if m.is_property:
                    return self.call_closure(clo, [obj], {})
                if m.is_static:
                    return clo
                if m.is_classmethod:
                    return Bound(ClassRef(obj.cls), clo)
                return Bound(obj, clo)
            f = obj.cls.lookup_field(name)
            if f is not None and not obj.open_attrs:
                c, (ann, val) = f
                d = self.field_default(c, val)
                if d is not _MISSING:
                    return d
        if obj.open_attrs:
            return Rat.atom(f"{obj.label}.{name}")
        raise AnalysisError(f"attribute {name!r} of {obj!r} not provided by the rule")

    def field_default(self, c: ClassInfo, val):
        if val is None:
            return _MISSING
        if isinstance(val, ast.Call):
            fn = ast.unparse(val.func).split(".")[-1]
            if fn in self.field_helpers:
                for kw in val.keywords:
                    if kw.arg == "default":
                        return self.eval(kw.value, self.module_env(c.module))
                    if kw.arg == "default_factory":
                        f = self.eval(kw.value, self.module_env(c.module))
                        return self.call(f, [], {})
                return _MISSING
        return self.eval(val, self.module_env(c.module))

    def isinstance(self, v, cls) -> bool:
        if isinstance(cls, tuple):
            return any(self.isinstance(v, c) for c in cls)
        if isinstance(cls, ClassRef):
            return isinstance(v, Obj) and v.cls is not None and v.cls.is_subclass_of(cls.ci)
        if isinstance(cls, Builtin):
            t = {
                "int": lambda x: (isinstance(x, int) and not isinstance(x, bool)) or (isinstance(x, Rat) and _integer_valued(x)),
                "float": lambda x: isinstance(x, (float, Fraction)) or (isinstance(x, Rat) and getattr(self, "rat_is_float", False)),
                "complex": lambda x: isinstance(x, complex),
                "bool": lambda x: isinstance(x, bool),
                "str": lambda x: isinstance(x, str),
                "tuple": lambda x: isinstance(x, tuple),
                "list": lambda x: isinstance(x, list),
                "dict": lambda x: isinstance(x, dict),
                "slice": lambda x: isinstance(x, slice),
                "set": lambda x: isinstance(x, set),
                "type": lambda x: isinstance(x, (ClassRef, Builtin)),
            }.get(cls.name)
            if t is None:
                raise AnalysisError(f"isinstance against builtin {cls.name}")
            return t(v)
        if isinstance(cls, ExtRef):
            c = canon_ext(cls.name)
            if c in ("jax.Array", "np.ndarray", "jax.typing.ArrayLike", "np.generic"):
                kind = getattr(v, "array_kind", None)  # a rule may pin a value to one array library
                if kind == "jax" and c in ("np.ndarray", "np.generic"):
                    return False
                if kind == "numpy" and c == "jax.Array":
                    return False
                return (isinstance(v, Rat) and getattr(self, "rat_is_array", True)) or (isinstance(v, AbsVal) and getattr(v, "is_array", False))
            if c in ("typing.Sequence", "collections.abc.Sequence", "Sequence"):
                return isinstance(v, (list, tuple))
            if c in ("numbers.Number",):
                return is_native_number(v)
            if c in ("numbers.Integral", "Integral"):
                return (isinstance(v, int) and not isinstance(v, bool)) or isinstance(v, bool) or (isinstance(v, Rat) and _integer_valued(v))
            if c in ("numbers.Real", "Real"):
                return isinstance(v, (int, float, Fraction)) or (isinstance(v, Rat) and v.is_const())
            raise AnalysisError(f"isinstance against external {c}")
        if cls is None:
            return v is None
        raise AnalysisError(f"isinstance against {cls!r}")

    # ------------------------------------------------------------ statements
    def exec_block(self, stmts, env: Env):
        for st in stmts:
            self.exec_stmt(st, env)

    def exec_stmt(self, st, env: Env):
        self.steps += 1
        if self.steps > self.step_limit:
            raise AnalysisError("interpreter step limit exceeded")
        m = getattr(self, "s_" + type(st).__name__, None)
        if m is None:
            raise AnalysisError(f"unsupported statement {type(st).__name__} at line {st.lineno}")
        r = m(st, env)
        if self.stop_after and id(st) in self.stop_after:
            raise StopAfter(env)
        return r

    def s_Expr(self, st, env):
        if isinstance(st.value, ast.Constant):
            return
        self.eval(st.value, env)

    def s_Pass(self, st, env):
        pass

    def s_Global(self, st, env):
        pass

    def s_Nonlocal(self, st, env):
        for n in st.names:
            env.vars.setdefault("__nonlocal__", set()).add(n)

    def s_Return(self, st, env):
        raise _Return(self.eval(st.value, env) if st.value is not None else None)

    def s_Break(self, st, env):
        raise _Break()

    def s_Continue(self, st, env):
        raise _Continue()

    def s_FunctionDef(self, st, env):
        mi = self._module_of(env)
        clo = Closure(st, env, mi, None, f"<local>.{st.name}")
        if st.decorator_list and self.ext_overrides:
            # decorators of local functions are applied only when a rule supplies a model for them
            for dec in reversed(st.decorator_list):
                try:
                    d = self.eval(dec, env)
                except AnalysisError:
                    continue
                if isinstance(d, ExtRef) and canon_ext(d.name) in self.ext_overrides:
                    clo = self.call_ext(d.name, [clo], {})
        env.set(st.name, clo)

    def s_ClassDef(self, st, env):
        raise AnalysisError(f"local class {st.name} not supported")

    def s_Import(self, st, env):
        for a in st.names:
            local = a.asname or a.name.split(".")[0]
            target = a.name if a.asname else a.name.split(".")[0]
            env.set(local, RepoMod(target) if target in self.index.modules else ExtRef(target))

    def s_ImportFrom(self, st, env):
        base = st.module or ""
        for a in st.names:
            full = f"{base}.{a.name}"
            if full in self.index.modules:
                env.set(a.asname or a.name, RepoMod(full))
            elif base in self.index.modules:
                env.set(a.asname or a.name, self.lookup_global(self.index.modules[base], a.name))
            else:
                env.set(a.asname or a.name, ExtRef(full))

    def _module_of(self, env: Env) -> ModuleInfo:
        e = env
        while e.parent is not None:
            e = e.parent
        return e.vars["__module__"]

    def s_Assign(self, st, env):
        v = self.eval(st.value, env)
        for t in st.targets:
            self.assign(t, v, env)

    def s_AnnAssign(self, st, env):
        if st.value is not None:
            self.assign(st.target, self.eval(st.value, env), env)

    def s_AugAssign(self, st, env):
        if isinstance(st.target, ast.Name):
            cur = self.eval(ast.Name(id=st.target.id, ctx=ast.Load()), env)
        else:
            load = ast.copy_location(type(st.target)(**{**{f: getattr(st.target, f) for f in st.target._fields}, "ctx": ast.Load()}), st.target)
            cur = self.eval(load, env)
        v = self.eval(st.value, env)
        op = _BINOPS[type(st.op)]
        if isinstance(cur, list) and op == "add":
            new = cur + list(v)
        else:
            new = self.binop(op, cur, v)
        self.assign(st.target, new, env)

    def s_Delete(self, st, env):
        for t in st.targets:
            if isinstance(t, ast.Name):
                env.vars.pop(t.id, None)
            elif isinstance(t, ast.Subscript):
                c = self.eval(t.value, env)
                k = self.eval(t.slice, env)
                del c[k]
            else:
                raise AnalysisError("unsupported del target")

    def assign(self, t, v, env: Env):
        if isinstance(t, ast.Name):
            nl = None
            e = env
            # honour nonlocal declarations
            if "__nonlocal__" in env.vars and t.id in env.vars["__nonlocal__"]:
                e = env.parent
                while e is not None and t.id not in e.vars:
                    e = e.parent
                if e is None:
                    raise AnalysisError(f"nonlocal {t.id} not found")
            e.vars[t.id] = v
        elif isinstance(t, (ast.Tuple, ast.List)):
            vals = self.iterate(v)
            star = [i for i, e in enumerate(t.elts) if isinstance(e, ast.Starred)]
            if star:
                si = star[0]
                after = len(t.elts) - si - 1
                if len(vals) < len(t.elts) - 1:
                    raise Raised("ValueError", "not enough values to unpack")
                for e, x in zip(t.elts[:si], vals[:si]):
                    self.assign(e, x, env)
                self.assign(t.elts[si].value, list(vals[si : len(vals) - after]), env)
                for e, x in zip(t.elts[si + 1 :], vals[len(vals) - after :]):
                    self.assign(e, x, env)
            else:
                if len(vals) != len(t.elts):
                    raise Raised("ValueError", f"unpack {len(vals)} values into {len(t.elts)} targets (line {t.lineno})")
                for e, x in zip(t.elts, vals):
                    self.assign(e, x, env)
        elif isinstance(t, ast.Subscript):
            c = self.eval(t.value, env)
            k = self.eval(t.slice, env)
            if isinstance(c, (list, dict)):
                if isinstance(k, Rat):
                    if not k.is_const():
                        raise AnalysisError("symbolic container key in store")
                    k = int(k.const_value())
                if isinstance(k, Fraction) and k.denominator == 1:
                    k = int(k)
                c[k] = v
            elif isinstance(c, AbsVal) and hasattr(c, "av_setitem"):
                c.av_setitem(k, v)
            else:
                raise AnalysisError(f"store into {type(c).__name__}[...] at line {t.lineno}")
        elif isinstance(t, ast.Attribute):
            o = self.eval(t.value, env)
            if isinstance(o, Obj):
                o.attrs[t.attr] = v
            else:
                raise AnalysisError(f"attribute store on {type(o).__name__} at line {t.lineno}")
        elif isinstance(t, ast.Starred):
            self.assign(t.value, v, env)
        else:
            raise AnalysisError(f"unsupported assignment target {type(t).__name__}")

    def s_If(self, st, env):
        if self.decide(self.eval(st.test, env), st.test):
            self.exec_block(st.body, env)
        else:
            self.exec_block(st.orelse, env)

    def s_For(self, st, env):
        it = self.iterate(self.eval(st.iter, env))
        broke = False
        for x in it:
            self.assign(st.target, x, env)
            try:
                self.exec_block(st.body, env)
            except _Break:
                broke = True
                break
            except _Continue:
                continue
        if not broke:
            self.exec_block(st.orelse, env)

    def s_While(self, st, env):
        n = 0
        while self.decide(self.eval(st.test, env), st.test):
            n += 1
            if n > 10000:
                raise AnalysisError("while loop bound exceeded")
            try:
                self.exec_block(st.body, env)
            except _Break:
                return
            except _Continue:
                continue
        self.exec_block(st.orelse, env)

    def s_With(self, st, env):
        for item in st.items:
            v = self.eval(item.context_expr, env)
            if item.optional_vars is not None:
                self.assign(item.optional_vars, v, env)
        self.exec_block(st.body, env)

    def s_Raise(self, st, env):
        name, msg = "Exception", ""
        if st.exc is not None:
            e = st.exc
            if isinstance(e, ast.Call):
                name = ast.unparse(e.func)
                try:
                    a = [self.eval(x, env) for x in e.args]
                    msg = " ".join(str(x) for x in a)
                except AnalysisError:
                    msg = ast.unparse(e)[:200]
            elif isinstance(e, ast.Name):
                found, val = env.lookup(e.id)
                if found and isinstance(val, Raised):
                    raise val
                name = e.id
            else:
                name = ast.unparse(e)
        raise Raised(name, msg, f"line {st.lineno}")

    def s_Assert(self, st, env):
        v = self.eval(st.test, env)
        if isinstance(v, SymBool) or (isinstance(v, Rat) and not v.is_const()):
            self.assumptions.append(f"assert {ast.unparse(st.test)}")
            return
        if isinstance(v, AbsVal) and not isinstance(v, Obj):
            self.assumptions.append(f"assert {ast.unparse(st.test)}")
            return
        if not self.decide(v, st.test):
            raise Raised("AssertionError", ast.unparse(st.test), f"line {st.lineno}")

    def s_Try(self, st, env):
        try:
            try:
                self.exec_block(st.body, env)
            except Raised as r:
                for h in st.handlers:
                    if self._handler_matches(h, r, env):
                        if h.name:
                            env.set(h.name, r)
                        self.exec_block(h.body, env)
                        break
                else:
                    raise
            else:
                self.exec_block(st.orelse, env)
        finally:
            self.exec_block(st.finalbody, env)

    def _handler_matches(self, h, r: Raised, env) -> bool:
        if h.type is None:
            return True
        names = []
        t = h.type
        for e in t.elts if isinstance(t, ast.Tuple) else [t]:
            names.append(ast.unparse(e).split(".")[-1])
        rn = r.exc_name.split(".")[-1]
        if "Exception" in names or "BaseException" in names:
            return True
        return rn in names

    # ----------------------------------------------------------- expressions
    def eval(self, node, env: Env):
        m = getattr(self, "e_" + type(node).__name__, None)
        if m is None:
            raise AnalysisError(f"unsupported expression {type(node).__name__} at line {getattr(node, 'lineno', '?')}")
        return m(node, env)

    def e_Yield(self, n, env):
        found, lst = env.lookup("__yield__")
        if not found:
            raise AnalysisError("yield outside generator")
        lst.append(self.eval(n.value, env) if n.value is not None else None)
        return None

    def e_YieldFrom(self, n, env):
        found, lst = env.lookup("__yield__")
        if not found:
            raise AnalysisError("yield from outside generator")
        lst.extend(self.iterate(self.eval(n.value, env)))
        return None

    def e_Constant(self, n, env):
        return num(n.value)

    def e_Name(self, n, env):
        found, v = env.lookup(n.id)
        if found:
            return v
        if n.id in BUILTINS and self.index.resolve_name(self._module_of(env), n.id) is None:
            return BUILTINS[n.id]
        return self.lookup_global(self._module_of(env), n.id)

    def e_Tuple(self, n, env):
        return tuple(self._elts(n.elts, env))

    def e_List(self, n, env):
        return list(self._elts(n.elts, env))

    def e_Set(self, n, env):
        return set(self._elts(n.elts, env))

    def _elts(self, elts, env):
        out = []
        for e in elts:
            if isinstance(e, ast.Starred):
                out.extend(self.iterate(self.eval(e.value, env)))
            else:
                out.append(self.eval(e, env))
        return out

    def e_Dict(self, n, env):
        d = {}
        for k, v in zip(n.keys, n.values):
            if k is None:
                d.update(self.eval(v, env))
            else:
                d[self.hashable(self.eval(k, env))] = self.eval(v, env)
        return d

    def hashable(self, k):
        if isinstance(k, Rat) and k.is_const():
            c = k.const_value()
            return int(c) if c.denominator == 1 else c
        if isinstance(k, Fraction) and k.denominator == 1:
            return int(k)
        return k

    def e_Slice(self, n, env):
        return slice(
            self.eval(n.lower, env) if n.lower else None,
            self.eval(n.upper, env) if n.upper else None,
            self.eval(n.step, env) if n.step else None,
        )

    def e_Starred(self, n, env):
        raise AnalysisError("starred expression outside of a sequence")

    def e_Lambda(self, n, env):
        return Closure(n, env, self._module_of(env), None, "<lambda>")

    def e_IfExp(self, n, env):
        if self.decide(self.eval(n.test, env), n.test):
            return self.eval(n.body, env)
        return self.eval(n.orelse, env)

    def e_NamedExpr(self, n, env):
        v = self.eval(n.value, env)
        self.assign(n.target, v, env)
        return v

    def e_JoinedStr(self, n, env):
        parts = []
        for v in n.values:
            if isinstance(v, ast.Constant):
                parts.append(str(v.value))
            else:
                x = self.eval(v.value, env)
                if isinstance(x, (str, int, bool)) or x is None:
                    parts.append(str(x))
                elif isinstance(x, Fraction):
                    parts.append(str(float(x)))
                elif isinstance(x, Rat):
                    parts.append(x.fmt())
                else:
                    parts.append(f"<{type(x).__name__}>")
        return "".join(parts)

    def e_FormattedValue(self, n, env):
        return str(self.eval(n.value, env))

    def e_Attribute(self, n, env):
        return self.getattr(self.eval(n.value, env), n.attr, n)

    def e_Subscript(self, n, env):
        c = self.eval(n.value, env)
        if isinstance(n.slice, ast.Tuple):
            k = tuple(self._elts(n.slice.elts, env))
        else:
            k = self.eval(n.slice, env)
        return self.getitem(c, k, n)

    def getitem(self, c, k, node=None):
        if isinstance(c, AbsVal):
            return c.av_getitem(k)
        k = self.hashable(k)
        if isinstance(k, AbsVal) and hasattr(k, "av_index_into"):
            return k.av_index_into(c)
        if isinstance(c, (tuple, list, str, range)):
            if isinstance(k, slice):
                k = slice(*(self._as_index(x) for x in (k.start, k.stop, k.step)))
            elif isinstance(k, (Rat, SymBool)):
                raise AnalysisError(f"symbolic index {k!r} into {type(c).__name__} at line {getattr(node, 'lineno', '?')}")
            try:
                return c[k]
            except IndexError:
                raise Raised("IndexError", f"index {k} out of range")
            except TypeError as e:
                raise AnalysisError(f"bad index {k!r}: {e}")
        if isinstance(c, dict):
            if k not in c:
                raise Raised("KeyError", repr(k))
            return c[k]
        if isinstance(c, Rat) or is_native_number(c):
            # scalar stands for an array treated point-wise
            return scalar_getitem(self, c, k)
        if isinstance(c, (ExtRef, Builtin, ClassRef)):
            return c  # typing subscripts such as list[int]
        raise AnalysisError(f"subscript of {type(c).__name__} at line {getattr(node, 'lineno', '?')}")

    def _as_index(self, x):
        if x is None:
            return None
        x = self.hashable(x)
        if isinstance(x, int):
            return x
        raise AnalysisError(f"non-integer slice bound {x!r}")

    def e_BoolOp(self, n, env):
        is_and = isinstance(n.op, ast.And)
        pending = None
        for v in n.values:
            x = self.eval(v, env)
            if isinstance(x, (SymBool,)) or (isinstance(x, Rat) and not x.is_const()):
                # keep symbolic, combine lazily
                if self.chooser is not None or (isinstance(x, SymBool) and x.key in self.assume):
                    t = self.decide(x, v)
                    if is_and and not t:
                        return False
                    if not is_and and t:
                        return True
                    continue
                pending = x if pending is None else self.binop("and" if is_and else "or", pending, x)
                continue
            t = self.decide(x, v)
            if is_and and not t:
                return x if pending is None else False
            if not is_and and t:
                return x if pending is None else True
            last = x
        if pending is not None:
            return pending
        if self.chooser is not None or True:
            # all operands decided: python returns the last operand
            try:
                return last
            except UnboundLocalError:
                return is_and

    def e_UnaryOp(self, n, env):
        v = self.eval(n.operand, env)
        if isinstance(n.op, ast.Not):
            if isinstance(v, SymBool):
                return v.av_unop("not")
            return not self.decide(v, n)
        op = {ast.USub: "neg", ast.UAdd: "pos", ast.Invert: "invert"}[type(n.op)]
        return self.unop(op, v)

    def unop(self, op, v):
        if isinstance(v, AbsVal):
            return v.av_unop(op)
        if isinstance(v, Rat):
            if op == "neg":
                return -v
            if op == "pos":
                return v
            raise AnalysisError("invert on symbolic scalar")
        if op == "neg":
            return -v
        if op == "pos":
            return +v
        if op == "invert":
            if isinstance(v, bool):
                return not v
            return ~v
        raise AnalysisError(op)

    def e_BinOp(self, n, env):
        return self.binop(_BINOPS[type(n.op)], self.eval(n.left, env), self.eval(n.right, env), n)

    def binop(self, op, a, b, node=None):
        if op == "bitor" and (isinstance(a, (Builtin, ClassRef, ExtRef, type, TypeUnion)) or isinstance(b, (Builtin, ClassRef, ExtRef, type, TypeUnion))) and (a is None or b is None or all(isinstance(x, (Builtin, ClassRef, ExtRef, type, TypeUnion)) for x in (a, b))):
            # a type expression such as `slice | int`: the tuple of its members (usable by isinstance)
            flat = []
            for x in (a, b):
                flat.extend(x if isinstance(x, TypeUnion) else [x])
            return TypeUnion(flat)
        if isinstance(a, AbsVal):
            r = a.av_binop(op, b, False)
            if r is not NotImplemented:
                return r
        if isinstance(b, AbsVal):
            r = b.av_binop(op, a, True)
            if r is not NotImplemented:
                return r
            raise AnalysisError(f"binop {op} between {type(a).__name__} and {type(b).__name__}")
        if isinstance(a, Rat) or isinstance(b, Rat):
            return rat_binop(op, a, b)
        try:
            return native_binop(op, a, b)
        except ZeroDivisionError:
            raise Raised("ZeroDivisionError", "division by zero")
        except TypeError as e:
            raise AnalysisError(f"native binop {op} on {type(a).__name__},{type(b).__name__}: {e}")

    def e_Compare(self, n, env):
        left = self.eval(n.left, env)
        result = True
        for opn, rn in zip(n.ops, n.comparators):
            right = self.eval(rn, env)
            r = self.compare(_CMPOPS[type(opn)], left, right, n)
            if isinstance(r, bool):
                if not r:
                    return False
            else:
                if result is True:
                    result = r
                else:
                    result = self.binop("and", result, r)
            left = right
        return result

    def compare(self, op, a, b, node=None):
        if op == "is":
            return self.identical(a, b)
        if op == "isnot":
            return not self.identical(a, b)
        if op in ("in", "notin"):
            r = self.contains(b, a)
            return r if op == "in" else (not r if isinstance(r, bool) else self.unop_not(r))
        if isinstance(a, AbsVal) and not isinstance(a, Obj):
            return a.av_compare(op, b, False)
        if isinstance(b, AbsVal) and not isinstance(b, Obj):
            return b.av_compare(_SWAP[op], a, False)
        if isinstance(a, Rat) or isinstance(b, Rat):
            if not (isinstance(a, (Rat, int, float, Fraction, bool)) and isinstance(b, (Rat, int, float, Fraction, bool))):
                if op == "eq":
                    return False
                if op == "ne":
                    return True
                raise AnalysisError(f"compare {op} between {type(a).__name__} and {type(b).__name__}")
            return rat_compare(op, a, b)
        if isinstance(a, Obj) or isinstance(b, Obj):
            if op == "eq":
                return a is b
            if op == "ne":
                return a is not b
            raise AnalysisError("ordering of objects")
        try:
            return {
                "eq": lambda: a == b,
                "ne": lambda: a != b,
                "lt": lambda: a < b,
                "le": lambda: a <= b,
                "gt": lambda: a > b,
                "ge": lambda: a >= b,
            }[op]()
        except TypeError as e:
            raise AnalysisError(f"native compare {op}: {e}")

    def unop_not(self, v):
        if isinstance(v, SymBool):
            return v.av_unop("not")
        return not self.decide(v)

    def identical(self, a, b):
        if a is None or b is None:
            return a is None and b is None
        if isinstance(a, bool) or isinstance(b, bool):
            return isinstance(a, bool) and isinstance(b, bool) and a == b
        if isinstance(a, ExtRef) and isinstance(b, ExtRef):
            return a.name == b.name
        return a is b

    def contains(self, container, item):
        if isinstance(container, AbsVal) and not isinstance(container, Obj):
            raise AnalysisError("membership in abstract value")
        if isinstance(container, dict):
            return self.hashable(item) in container
        if isinstance(container, str):
            return item in container
        seq = self.iterate(container)
        anyunknown = None
        for x in seq:
            r = self.compare("eq", item, x)
            if r is True:
                return True
            if r is not False:
                anyunknown = r if anyunknown is None else self.binop("or", anyunknown, r)
        return anyunknown if anyunknown is not None else False

    def e_Call(self, n, env):
        f = self.eval(n.func, env)
        args = []
        for a in n.args:
            if isinstance(a, ast.Starred):
                args.extend(self.iterate(self.eval(a.value, env)))
            else:
                args.append(self.eval(a, env))
        kwargs = {}
        for kw in n.keywords:
            if kw.arg is None:
                kwargs.update(self.eval(kw.value, env))
            else:
                kwargs[kw.arg] = self.eval(kw.value, env)
        # zero-argument super()
        if isinstance(f, Builtin) and f.name == "super" and not args:
            found, cls = env.lookup("__class__")
            found2, slf = env.lookup("self")
            if not (found and found2):
                raise AnalysisError("super() outside method")
            return SuperProxy(cls, slf)
        return self.call(f, args, kwargs, n)

    def _comp(self, generators, env, emit):
        def rec(i, e):
            if i == len(generators):
                emit(e)
                return
            g = generators[i]
            for x in self.iterate(self.eval(g.iter, e)):
                e2 = Env(e)
                self.assign(g.target, x, e2)
                if all(self.decide(self.eval(c, e2), c) for c in g.ifs):
                    rec(i + 1, e2)

        rec(0, Env(env))

    def e_ListComp(self, n, env):
        out = []
        self._comp(n.generators, env, lambda e: out.append(self.eval(n.elt, e)))
        return out

    def e_GeneratorExp(self, n, env):
        return self.e_ListComp(n, env)

    def e_SetComp(self, n, env):
        return set(self.e_ListComp(n, env))

    def e_DictComp(self, n, env):
        out = {}
        self._comp(
            n.generators, env, lambda e: out.__setitem__(self.hashable(self.eval(n.key, e)), self.eval(n.value, e))
        )
        return out

    # -------------------------------------------------------------- helpers
    def iterate(self, v) -> list:
        if isinstance(v, (list, tuple, range, set, frozenset)):
            return list(v)
        if isinstance(v, dict):
            return list(v.keys())
        if isinstance(v, str):
            return list(v)
        if isinstance(v, AbsVal) and hasattr(v, "av_iter"):
            return v.av_iter()
        if hasattr(v, "__iter__") and not isinstance(v, (Rat,)):
            return list(v)
        raise AnalysisError(f"cannot iterate {type(v).__name__}")


_MISSING = object()
_GEN_CACHE: dict = {}


def _is_generator(node) -> bool:
    k = id(node)
    if k not in _GEN_CACHE:
        found = False
        stack = list(getattr(node, "body", []))
        while stack:
            x = stack.pop()
            if isinstance(x, (ast.Yield, ast.YieldFrom)):
                found = True
                break
            if isinstance(x, (ast.FunctionDef, ast.AsyncFunctionDef, ast.Lambda, ast.ClassDef)):
                continue
            stack.extend(ast.iter_child_nodes(x))
        _GEN_CACHE[k] = found
    return _GEN_CACHE[k]


class TreeAt(AbsVal):
    """obj.at[name].set(value) on a tree class: a copy of obj with that attribute replaced."""

    def __init__(self, obj, key=None):
        self.obj, self.key = obj, key

    def av_getitem(self, key):
        if not isinstance(key, str):
            raise AnalysisError(f"tree .at[{key!r}]: only attribute names are modelled")
        return TreeAt(self.obj, key)

    def av_getattr(self, name):
        if self.key is None or name != "set":
            raise AnalysisError(f"tree .at[...].{name}")
        return Builtin("at.set", lambda it, a, k: self.obj.replace(**{self.key: a[0]}))


class SuperProxy(AbsVal):
    def __init__(self, cls: ClassInfo, obj):
        self.cls = cls
        self.obj = obj

    def av_getattr(self, name):
        raise AnalysisError("SuperProxy needs interp; use interp.getattr")


def _super_getattr(interp: Interp, sp: SuperProxy, name: str):
    ocls = sp.obj.cls if isinstance(sp.obj, Obj) else sp.cls
    mro = ocls.mro()
    start = mro.index(sp.cls) + 1 if sp.cls in mro else 1
    for c in mro[start:]:
        if name in c.methods:
            m = c.methods[name]
            clo = interp.closure_of(m)
            if m.is_property:
                return interp.call_closure(clo, [sp.obj], {})
            return Bound(sp.obj, clo)
    if name in ("__post_init__", "__init__"):
        return Builtin("noop", lambda it, a, k: None)
    raise AnalysisError(f"super().{name} not found above {sp.cls.name}")


_orig_getattr = Interp.getattr


def _getattr_with_super(self, v, name, node=None):
    if isinstance(v, SuperProxy):
        return _super_getattr(self, v, name)
    return _orig_getattr(self, v, name, node)


Interp.getattr = _getattr_with_super


# ---------------------------------------------------------------------------
# native / scalar operations
# ---------------------------------------------------------------------------


def native_binop(op, a, b):
    if op == "add":
        return a + b
    if op == "sub":
        return a - b
    if op == "mul":
        return a * b
    if op == "div":
        if isinstance(a, int) and isinstance(b, int) and not isinstance(a, bool) and not isinstance(b, bool):
            if b == 0:
                raise ZeroDivisionError
            f = Fraction(a, b)
            return f
        return a / b
    if op == "floordiv":
        r = a // b
        return int(r) if isinstance(r, Fraction) else r
    if op == "mod":
        if isinstance(a, str):
            return a % b
        return a % b
    if op == "pow":
        if isinstance(b, Fraction) and b.denominator != 1:
            if isinstance(a, (int, Fraction)) and b == Fraction(1, 2):
                from .poly import sqrt

                r = sqrt(a)
                return r.const_value() if r.is_const() else r
            return Rat.lift(a) if False else apply_fn("pow", a, b)
        if isinstance(b, Fraction):
            b = int(b)
        if isinstance(a, (int, Fraction)) and isinstance(b, int) and b < 0:
            return Fraction(a) ** b
        return a**b
    if op in ("bitand", "and"):
        return a & b
    if op in ("bitor", "or"):
        return a | b
    if op == "bitxor":
        return a ^ b
    if op == "lshift":
        return a << b
    if op == "rshift":
        return a >> b
    raise AnalysisError(f"native op {op}")


def rat_binop(op, a, b):
    if isinstance(a, (SymBool,)) or isinstance(b, SymBool):
        a, b = to_rat(a), to_rat(b)
    if not isinstance(a, (Rat, int, float, Fraction, complex, bool)) or not isinstance(
        b, (Rat, int, float, Fraction, complex, bool)
    ):
        if (a is None or b is None) and op in ("add", "sub", "mult", "div", "floordiv", "mod", "pow", "matmult"):
            raise Raised("TypeError", f"unsupported operand type(s) for {op}: '{type(a).__name__}' and '{type(b).__name__}'")  # what Python does with None
        raise AnalysisError(f"symbolic binop {op} on {type(a).__name__},{type(b).__name__}")
    A, B = Rat.lift(a), Rat.lift(b)
    try:
        if op == "add":
            return A + B
        if op == "sub":
            return A - B
        if op == "mul":
            return A * B
        if op == "div":
            return A / B
        if op == "pow":
            if B.is_const():
                e = B.const_value()
                if e.denominator == 1:
                    return A ** int(e)
                if e == Fraction(1, 2):
                    from .poly import sqrt

                    return sqrt(A)
            return apply_fn("pow", A, B)
        if op == "mod":
            return apply_fn("mod", A, B)
        if op == "floordiv":
            return apply_fn("floor", A / B)
        if op in ("bitand", "and"):
            return A * B  # indicator algebra
        if op in ("bitor", "or"):
            return A + B - A * B
    except ZeroDivisionError:
        raise Raised("ZeroDivisionError", "symbolic division by zero")
    raise AnalysisError(f"symbolic op {op}")


COMPARE_HOOKS: list = []  # rule-supplied observers fn(op, a, b) of every scalar comparison (operand extraction)


def rat_compare(op, a, b):
    for _h in COMPARE_HOOKS:
        _h(op, a, b)
    # an infinite float against a (finite) symbolic value: decided by the sign of the infinity
    for x, y, flip in ((a, b, False), (b, a, True)):
        if isinstance(y, float) and math.isinf(y) and not (isinstance(x, float) and math.isinf(x)):
            pos = y > 0
            o = _SWAP[op] if flip else op  # compare x (finite) o' inf
            return {"eq": False, "ne": True, "lt": pos, "le": pos, "gt": not pos, "ge": not pos}[o]
    d = Rat.lift(a) - Rat.lift(b)
    if d.is_const():
        c = d.const_value()
        return {"eq": c == 0, "ne": c != 0, "lt": c < 0, "le": c <= 0, "gt": c > 0, "ge": c >= 0}[op]
    for _o in COMPARE_ORACLES:  # rule-supplied ordering facts (fn(op, d) -> bool | None, d = a - b)
        _r = _o(op, d)
        if _r is not None:
            return _r
    if op in ("eq", "ne"):
        if d.leading_sign() < 0:
            d = -d
        sb = SymBool(("eq0", d.key(), d.fmt()))
        return sb if op == "eq" else sb.av_unop("not")
    # lt(a,b): a-b < 0
    if op == "lt":
        return _lt0(d)
    if op == "ge":
        return _lt0(d).av_unop("not")
    nd = -d
    if op == "gt":
        return _lt0(nd)
    if op == "le":
        return _lt0(nd).av_unop("not")
    raise AnalysisError(op)


INTEGER_ATOMS: set = set()
COMPARE_ORACLES: list = []


def _integer_valued(d: Rat) -> bool:
    if not INTEGER_ATOMS or not d.d.is_const() or d.d.const_value() != 1:
        return False
    for m, c in d.n.t.items():
        if Fraction(c).denominator != 1:
            return False
        for a, e in m:
            if a not in INTEGER_ATOMS:
                return False
    return True


def _lt0(d: Rat) -> SymBool:
    """The predicate d < 0.  Over integer-valued d the two spellings d < 0 and
    not(-d-1 < 0) denote the same predicate; one canonical form is chosen."""
    if _integer_valued(d) and d.leading_sign() < 0:
        e = -d - 1
        return SymBool(("lt0", e.key(), e.fmt()), negated=True)
    return SymBool(("lt0", d.key(), d.fmt()))


def scalar_attr(interp, v, name):
    """Attributes of a scalar that stands for an array handled point-wise."""
    if name in ("real", "imag"):
        return interp.call_ext(f"np.{name}", [v], {})
    if name == "T":
        return v
    if name in ("astype", "reshape", "squeeze", "copy", "block_until_ready", "item", "flatten", "ravel"):
        return Builtin(name, lambda it, a, k, _v=v: _v)
    if name == "conj" or name == "conjugate":
        return Builtin(name, lambda it, a, k, _v=v: it.call_ext("np.conj", [_v], {}))
    if name == "dtype":
        return Unknown("dtype")
    if name in ("sum", "mean", "max", "min"):
        return Builtin(name, lambda it, a, k, _v=v, _n=name: it.call_ext(f"np.{_n}", [_v] + list(a), k))
    if name == "at":
        return ScalarAt(v)
    raise AnalysisError(f"attribute {name!r} of scalar value")


class ScalarAt(AbsVal):
    """x.at[idx].set/add for a point-wise scalar: the region is an indicator."""

    def __init__(self, base, idx=None):
        self.base = base
        self.idx = idx

    def av_getitem(self, idx):
        return ScalarAt(self.base, idx)

    def av_getattr(self, name):
        if name in ("set", "add", "multiply"):
            def f(it, a, k, _n=name):
                ind = Rat.atom(("ind", ("region", region_key(self.idx))))
                val = to_rat(a[0])
                base = to_rat(self.base)
                if _n == "set":
                    return base + ind * (val - base)
                if _n == "add":
                    return base + ind * val
                return base + ind * (base * val - base)

            return Builtin(name, f)
        raise AnalysisError(f".at[...].{name}")


def region_key(idx):
    def k(x):
        if isinstance(x, slice):
            return ("slice", k(x.start), k(x.stop), k(x.step))
        if isinstance(x, tuple):
            return tuple(k(y) for y in x)
        if isinstance(x, list):
            return tuple(k(y) for y in x)
        if isinstance(x, Rat):
            return x.fmt()
        if x is Ellipsis:
            return "..."
        return repr(x)

    return k(idx)


def scalar_getitem(interp, c, k):
    """Indexing a scalar that stands for an array: value unchanged, restricted."""
    return c


def native_method(interp, v, name):
    allowed = {
        str: {"format", "startswith", "endswith", "split", "join", "lower", "upper", "strip", "replace", "lstrip", "rstrip", "isdigit", "find", "isidentifier", "isalpha", "isalnum", "rsplit", "count", "title", "capitalize"},
        tuple: {"index", "count"},
        list: {"append", "extend", "index", "count", "insert", "pop", "copy", "sort", "reverse", "remove"},
        dict: {"get", "items", "keys", "values", "copy", "update", "setdefault", "pop"},
        set: {"add", "update", "copy", "discard", "union", "intersection", "difference", "issubset"},
        frozenset: {"union", "intersection", "difference", "issubset"},
        slice: {"start", "stop", "step", "indices"},
        range: {"start", "stop", "step"},
    }
    for t, names in allowed.items():
        if isinstance(v, t) and name in names:
            attr = getattr(v, name)
            if not callable(attr):
                return attr

            def f(it, a, k, _attr=attr, _name=name, _v=v):
                a = [it.hashable(x) for x in a]
                if _name == "sort":
                    key = k.get("key")
                    rev = bool(k.get("reverse", False))
                    if key is None:
                        _v.sort(reverse=rev)
                    else:
                        _v.sort(key=lambda x: it.hashable(it.call(key, [x], {})), reverse=rev)
                    return None
                if _name == "join":
                    return _attr([str(x) for x in it.iterate(a[0])])
                if _name == "get" and isinstance(_v, dict):
                    return _v.get(a[0], a[1] if len(a) > 1 else k.get("default"))
                if _name in ("items", "keys", "values"):
                    return list(_attr())
                try:
                    return _attr(*a, **k)
                except (ValueError, KeyError, IndexError) as e:
                    raise Raised(type(e).__name__, str(e))

            return Builtin(name, f)
    raise AnalysisError(f"method {name!r} of native {type(v).__name__}")


def tree_aset(interp, obj, attr_name, val, create_new_ok=False):
    """Model of TreeClass.aset: functional update along 'a->b->[0]->['k']'."""
    ops = []
    for part in str(attr_name).split("->"):
        part = part.strip()
        if part.startswith("["):
            inner = part[1:-1]
            if inner and inner[0] in "'\"":
                ops.append(("key", inner[1:-1]))
            else:
                ops.append(("idx", int(inner)))
        else:
            ops.append(("attr", part))

    def upd(cur, i):
        if i == len(ops):
            return val
        kind, k = ops[i]
        if kind == "attr":
            if not isinstance(cur, Obj):
                raise AnalysisError(f"aset through non-object at {k}")
            if k not in cur.attrs and i < len(ops) - 1:
                child = interp.obj_getattr(cur, k)
            else:
                child = cur.attrs.get(k)
            return cur.replace(**{k: upd(child, i + 1)})
        if kind == "idx":
            new = list(cur)
            new[k] = upd(cur[k], i + 1)
            return type(cur)(new) if isinstance(cur, tuple) else new
        new = dict(cur)
        new[k] = upd(cur.get(k), i + 1)
        return new

    return upd(obj, 0)


# ---------------------------------------------------------------------------
# builtins
# ---------------------------------------------------------------------------


def _b(name):
    def deco(f):
        BUILTINS[name] = Builtin(name, f)
        return f

    return deco


BUILTINS: dict[str, object] = {}
EXT_CONSTANTS: dict[str, object] = {
    "np.pi": Rat.atom("π"),
    "math.pi": Rat.atom("π"),
    "np.inf": math.inf,
    "math.inf": math.inf,
    "np.newaxis": None,
    "np.e": Rat.atom("e"),
}


@_b("range")
def _range(it, a, k):
    return range(*[it._as_index(x) for x in a])


@_b("len")
def _len(it, a, k):
    v = a[0]
    if isinstance(v, AbsVal) and hasattr(v, "av_len"):
        return v.av_len()
    if isinstance(v, (list, tuple, dict, str, set, range, frozenset)):
        return len(v)
    raise AnalysisError(f"len of {type(v).__name__}")


@_b("enumerate")
def _enumerate(it, a, k):
    start = k.get("start", a[1] if len(a) > 1 else 0)
    return [(i + start, x) for i, x in enumerate(it.iterate(a[0]))]


@_b("zip")
def _zip(it, a, k):
    seqs = [it.iterate(x) for x in a]
    if k.get("strict") and len({len(s) for s in seqs}) > 1:
        raise Raised("ValueError", "zip() arguments have different lengths")
    return [tuple(t) for t in zip(*seqs)]


@_b("tuple")
def _tuple(it, a, k):
    return tuple(it.iterate(a[0])) if a else ()


@_b("list")
def _list(it, a, k):
    return list(it.iterate(a[0])) if a else []


@_b("dict")
def _dict(it, a, k):
    d = {}
    if a:
        src = a[0]
        if isinstance(src, dict):
            d.update(src)
        else:
            for kk, vv in it.iterate(src):
                d[it.hashable(kk)] = vv
    d.update(k)
    return d


@_b("set")
def _set(it, a, k):
    return set(it.hashable(x) for x in it.iterate(a[0])) if a else set()


@_b("frozenset")
def _frozenset(it, a, k):
    return frozenset(it.hashable(x) for x in it.iterate(a[0])) if a else frozenset()


@_b("sorted")
def _sorted(it, a, k):
    seq = it.iterate(a[0])
    key = k.get("key")
    rev = bool(k.get("reverse", False))
    try:
        if key is None:
            return sorted(seq, reverse=rev)
        return sorted(seq, key=lambda x: it.hashable(it.call(key, [x], {})), reverse=rev)
    except TypeError as e:
        raise AnalysisError(f"sorted over abstract keys: {e}")


@_b("reversed")
def _reversed(it, a, k):
    return list(reversed(it.iterate(a[0])))


@_b("sum")
def _sum(it, a, k):
    total = a[1] if len(a) > 1 else k.get("start", 0)
    for x in it.iterate(a[0]):
        total = it.binop("add", total, x)
    return total


@_b("any")
def _any(it, a, k):
    pend = None
    for x in it.iterate(a[0]):
        if isinstance(x, SymBool) and it.chooser is None and x.key not in it.assume:
            pend = x if pend is None else it.binop("or", pend, x)
            continue
        if it.decide(x):
            return True
    return pend if pend is not None else False


@_b("all")
def _all(it, a, k):
    pend = None
    for x in it.iterate(a[0]):
        if isinstance(x, SymBool) and it.chooser is None and x.key not in it.assume:
            pend = x if pend is None else it.binop("and", pend, x)
            continue
        if not it.decide(x):
            return False
    return pend if pend is not None else True


def _minmax(which):
    def f(it, a, k):
        seq = it.iterate(a[0]) if len(a) == 1 else list(a)
        key = k.get("key")
        if not seq:
            if "default" in k:
                return k["default"]
            raise Raised("ValueError", f"{which}() arg is an empty sequence")
        best = seq[0]
        bk = it.call(key, [best], {}) if key else best
        for x in seq[1:]:
            xk = it.call(key, [x], {}) if key else x
            r = it.compare("lt" if which == "min" else "gt", xk, bk)
            if not isinstance(r, bool):
                if isinstance(xk, (Rat, int, Fraction)) and isinstance(bk, (Rat, int, Fraction)) and key is None:
                    best = apply_fn(which, best, x) if True else None
                    bk = best
                    continue
                r = it.decide(r)
            if r:
                best, bk = x, xk
        return best

    return f


BUILTINS["min"] = Builtin("min", _minmax("min"))
BUILTINS["max"] = Builtin("max", _minmax("max"))


@_b("abs")
def _abs(it, a, k):
    v = a[0]
    if isinstance(v, (int, float, Fraction)):
        return abs(v)
    if isinstance(v, AbsVal):
        return it.call_ext("np.abs", [v], {})
    if isinstance(v, Rat) and any(a == I for a in v.atoms()):
        # modulus of a Gaussian-rational normal form: sqrt(re^2 + im^2)
        from .extlib import imag_rat, real_rat
        from .poly import sqrt as _sqrt

        return _sqrt(real_rat(v, it) ** 2 + imag_rat(v, it) ** 2)
    return apply_fn("abs", v)


def _unwrap0d(v):
    """int()/float() of a 0-d array is its single element"""
    if isinstance(v, AbsVal) and getattr(v, "is_array", False) and hasattr(v, "data") and len(v.data) == 1 and not getattr(v, "sp", ()) and not getattr(v, "shape", ()):
        return v.data[0]
    return v


@_b("round")
def _round(it, a, k):
    v = a[0]
    if isinstance(v, (int, float, Fraction)):
        return round(v, *a[1:])
    if isinstance(v, Rat) and len(a) == 1:
        if v.is_const():
            return round(v.const_value())
        if _integer_valued(v):
            return v  # an integer-valued symbolic expression is its own rounding
    return apply_fn("round", v)


@_b("int")
def _int(it, a, k):
    v = _unwrap0d(a[0]) if a else 0
    if isinstance(v, (int, float, Fraction, str, bool)):
        return int(v)
    if isinstance(v, Rat):
        if v.is_const():
            return int(v.const_value())
        return v  # treat int() of a symbolic integer as transparent
    raise AnalysisError(f"int() of {type(v).__name__}")


@_b("float")
def _float(it, a, k):
    v = _unwrap0d(a[0]) if a else 0
    if isinstance(v, str):
        return num(float(v))
    if isinstance(v, (int, float, Fraction, bool)):
        return num(float(v)) if not isinstance(v, Fraction) else v
    if isinstance(v, (Rat, AbsVal)):
        return v
    raise AnalysisError(f"float() of {type(v).__name__}")


@_b("complex")
def _complex(it, a, k):
    re = a[0] if a else 0
    im = a[1] if len(a) > 1 else 0
    return Rat.lift(re) + Rat.atom(I) * Rat.lift(im)


@_b("bool")
def _bool(it, a, k):
    v = a[0] if a else False
    if isinstance(v, SymBool):
        return v
    return it.decide(v)


@_b("str")
def _str(it, a, k):
    v = a[0] if a else ""
    if isinstance(v, (str, int, bool)) or v is None:
        return str(v)
    if isinstance(v, Fraction):
        return str(float(v))
    if isinstance(v, ExtRef):
        return f"<class '{v.name}'>"  # an external class object (e.g. a jax dtype)
    return f"<{type(v).__name__}>"


@_b("repr")
def _repr(it, a, k):
    return _str(it, a, k)


@_b("isinstance")
def _isinstance(it, a, k):
    return it.isinstance(a[0], a[1])


@_b("issubclass")
def _issubclass(it, a, k):
    c, base = a
    if isinstance(c, ClassRef) and isinstance(base, ClassRef):
        return c.ci.is_subclass_of(base.ci)
    raise AnalysisError("issubclass on non-repo classes")


@_b("getattr")
def _getattr(it, a, k):
    try:
        return it.getattr(a[0], a[1])
    except AnalysisError:
        if len(a) > 2:
            if isinstance(a[0], Obj) and not a[0].open_attrs:
                return a[2]
            if not isinstance(a[0], Obj):
                return a[2]
        raise


@_b("setattr")
def _setattr(it, a, k):
    if isinstance(a[0], Obj) and isinstance(a[1], str):
        a[0].attrs[a[1]] = a[2]
        return None
    raise AnalysisError(f"setattr on {type(a[0]).__name__}")


@_b("dir")
def _dir(it, a, k):
    v = a[0] if a else None
    if isinstance(v, (list, dict, tuple, str, set)):
        return dir(type(v))
    if isinstance(v, Obj):
        names = set(v.attrs)
        if v.cls is not None:
            for c in v.cls.mro():
                names |= set(c.methods) | set(c.fields)
        return sorted(names)
    if getattr(v, "is_array", False):
        return ["__getitem__", "at", "shape", "dtype"]
    return []


@_b("hasattr")
def _hasattr(it, a, k):
    try:
        it.getattr(a[0], a[1])
        return True
    except AnalysisError:
        return False


@_b("callable")
def _callable(it, a, k):
    return isinstance(a[0], (Closure, Bound, Builtin, Partial, ClassRef, ExtRef))


@_b("slice")
def _slice(it, a, k):
    return slice(*a)


@_b("print")
def _print(it, a, k):
    return None


@_b("type")
def _type(it, a, k):
    v = a[0]
    if isinstance(v, Obj) and v.cls:
        return ClassRef(v.cls)
    if v is None:
        return Builtin("NoneType", lambda it_, a_, k_: None)
    if isinstance(v, (bool, int, float, str, tuple, list, dict, set)) and type(v).__name__ in BUILTINS:
        return BUILTINS[type(v).__name__]
    if isinstance(v, Fraction):
        return BUILTINS["float"]
    if isinstance(v, (ExtRef, ClassRef)):
        return BUILTINS["type"]
    if isinstance(v, AbsVal) and getattr(v, "is_array", False):
        return Builtin("ndarray", lambda it_, a_, k_: a_[0])  # the class of an array value (only its name is ever inspected)
    return Unknown(f"type({type(v).__name__})")


@_b("id")
def _id(it, a, k):
    return id(a[0])


@_b("map")
def _map(it, a, k):
    return [it.call(a[0], [x], {}) for x in it.iterate(a[1])]


@_b("filter")
def _filter(it, a, k):
    return [x for x in it.iterate(a[1]) if it.decide(it.call(a[0], [x], {}) if a[0] is not None else x)]


@_b("divmod")
def _divmod(it, a, k):
    return (it.binop("floordiv", a[0], a[1]), it.binop("mod", a[0], a[1]))


@_b("pow")
def _pow(it, a, k):
    return it.binop("pow", a[0], a[1])


@_b("super")
def _super(it, a, k):
    if len(a) == 2 and isinstance(a[0], ClassRef):
        return SuperProxy(a[0].ci, a[1])
    raise AnalysisError("super() form")


@_b("iter")
def _iter(it, a, k):
    return it.iterate(a[0])


@_b("next")
def _next(it, a, k):
    seq = it.iterate(a[0])
    if seq:
        return seq[0]
    if len(a) > 1:
        return a[1]
    raise Raised("StopIteration", "")


@_b("hash")
def _hash(it, a, k):
    return hash(repr(a[0]))


for _n in ("Exception", "ValueError", "TypeError", "KeyError", "IndexError", "NotImplementedError", "RuntimeError", "AssertionError", "AttributeError", "ZeroDivisionError", "StopIteration", "Warning", "UserWarning", "DeprecationWarning"):
    BUILTINS[_n] = Builtin(_n, (lambda nm: lambda it, a, k: Raised(nm, " ".join(str(x) for x in a)))(_n))

BUILTINS["NotImplemented"] = Unknown("NotImplemented")
BUILTINS["Ellipsis"] = Ellipsis
BUILTINS["object"] = Builtin("object", lambda it, a, k: Obj(None, {}, "object"))
