"""Homogeneity / degree domain over rational normal forms (C10 and friends).

degree(r, base) returns the set of total degrees of r in the *base* atoms (those for which base(atom) is
true), looking through the positively homogeneous wrappers abs / real / imag / conj (degree of the argument)
and treating any other opaque application whose arguments mention a base atom as non-polynomial (None).
A value is homogeneous of degree d iff the set is {d}; the denominator must have degree set {0} or a single
degree that is subtracted."""

from __future__ import annotations

from .poly import Poly, Rat

HOMOG1 = {"abs", "real", "imag", "conj", "conjugate"}


def _atom_degree(a, base):
    """degree of one atom: int, or None when the atom depends on base atoms non-polynomially"""
    if base(a):
        return 1
    if isinstance(a, tuple) and a and a[0] == "call":
        fn = a[1]
        sub = [x for x in a[2:] if isinstance(x, Rat)]
        degs = [degree(x, base) for x in sub]
        if all(d == {0} for d in degs):
            return 0
        if fn in HOMOG1 and len(sub) == 1 and degs[0] is not None and len(degs[0]) == 1:
            return next(iter(degs[0]))
        return None
    if isinstance(a, tuple) and a and a[0] in ("ind", "idx", "at"):
        for x in a[1:]:
            if isinstance(x, Rat):
                d = degree(x, base)
                if d != {0}:
                    return None
        if a[0] == "ind" and _mentions(a[1:], base):
            return None  # an indicator of a predicate on base atoms (a threshold, a sign test): not polynomial in them
        return 0
    return 0


def _mentions(x, base, depth=0):
    """does the nested key structure x contain an atom of the base (predicate keys carry the compared normal form)"""
    if depth > 12:
        return False
    try:
        if base(x):
            return True
    except Exception:
        pass
    if isinstance(x, (tuple, list, frozenset)):
        return any(_mentions(y, base, depth + 1) for y in x)
    if isinstance(x, str):  # predicate keys carry the compared expression in printed form
        import re

        for tok in set(re.findall(r"[A-Za-z_][A-Za-z_0-9]*", x)):
            if tok != x:
                try:
                    if base(tok):
                        return True
                except Exception:
                    pass
    return False


def _poly_degrees(p: Poly, base):
    out = set()
    for m in p.t:
        tot = 0
        for a, e in m:
            d = _atom_degree(a, base)
            if d is None:
                return None
            tot += d * e
        out.add(tot)
    return out or {0}


def degree(r, base):
    """set of degrees of r in the base atoms, or None if not polynomial in them"""
    r = Rat.lift(r)
    if r.is_zero():
        return set()
    n = _poly_degrees(r.n, base)
    d = _poly_degrees(r.d, base)
    if n is None or d is None or len(d) != 1:
        return None
    k = next(iter(d))
    return {x - k for x in n}
