"""E4/E7 — abstract n-d arrays: concrete leading shape, implicit spatial dims.

An NdArr has explicit leading dims (concrete ints, elements stored densely)
followed by implicit *spatial* dims (Dim objects of symbolic size).  Each
element is an abstract scalar standing for the value at one generic position
p of the spatial dims: a poly.Rat over atoms ('at', name, shift, deps) that
mean `name[p + shift]`.  Slicing a spatial dim changes its window only;
element-wise operations align windows by shifting atoms (stencil form).
Broadcasting follows numpy; unknown sizes never unify with a different size
(a mismatch raises the analysed program's ValueError, it is not ignored).
"""

from __future__ import annotations

import itertools
from fractions import Fraction

from .index import AnalysisError
from .poly import Poly, Rat
from .values import AbsVal, Builtin, Raised, SymBool, Unknown, to_rat


class Dim:
    """Window [lo, n + hi) along physical axis `axis` of a domain of symbolic size n.
    region: optional label when the window is a named sub-range (detector / pml slice).
    dl / dh: number of cells at the low / high end whose value was contaminated by a
    wrap-around (jnp.roll); they must be sliced away before the array is used."""

    __slots__ = ("axis", "n", "lo", "hi", "region", "dl", "dh")

    def __init__(self, axis, n, lo=0, hi=0, region=None, dl=0, dh=0):
        self.axis = axis
        self.n = n
        self.lo = lo
        self.hi = hi
        self.region = region
        self.dl = dl
        self.dh = dh

    def same_size(self, o: "Dim") -> bool:
        return self.n == o.n and (self.hi - self.lo) == (o.hi - o.lo) and self.region == o.region

    def with_(self, lo=None, hi=None, region=None, dl=None, dh=None):
        return Dim(
            self.axis,
            self.n,
            self.lo if lo is None else lo,
            self.hi if hi is None else hi,
            self.region if region is None else region,
            self.dl if dl is None else dl,
            self.dh if dh is None else dh,
        )

    def size_rat(self) -> Rat:
        return Rat.atom(self.n) + (self.hi - self.lo)

    def __repr__(self):
        r = f"|{self.region}" if self.region else ""
        d = f"!{self.dl},{self.dh}" if (self.dl or self.dh) else ""
        return f"{self.n}[{self.lo}:{self.hi}]{r}{d}"

    def key(self):
        return (self.axis, self.n, self.lo, self.hi, self.region)


def field_atom(name: str, shift=(0, 0, 0), deps=(0, 1, 2)) -> Rat:
    return Rat.atom(("at", name, tuple(shift), tuple(deps)))


def shift_value(v, axis: int, k: int):
    """Value at position p+k*e_axis expressed at p: shift every positional atom."""
    if k == 0 or axis is None:
        return v
    if isinstance(v, SymBool):
        return v
    if not isinstance(v, Rat):
        return v
    mapping = {}
    for a in v.atoms():
        na = _shift_atom(a, axis, k)
        if na is not None:
            mapping[a] = na
    if not mapping:
        return v
    return v.subs(mapping)


def _shift_atom(a, axis, k):
    if isinstance(a, tuple) and a and a[0] == "at":
        _, name, sh, deps = a
        if axis in deps:
            sh = list(sh)
            sh[axis] += k
            return Rat.atom(("at", name, tuple(sh), deps))
        return None
    if isinstance(a, tuple) and a and a[0] in ("call", "ind"):
        changed = False
        new = [a[0], a[1]] if a[0] == "call" else [a[0]]
        rest = a[2:] if a[0] == "call" else a[1:]
        for x in rest:
            if isinstance(x, Rat):
                y = shift_value(x, axis, k)
                changed = changed or (y is not x)
                new.append(y)
            else:
                new.append(x)
        if changed:
            return Rat.atom(tuple(new))
    return None


def _prod(xs):
    r = 1
    for x in xs:
        r *= x
    return r


class NdArr(AbsVal):
    is_array = True

    def __init__(self, shape, data, sp=(), trail=()):
        self.shape = tuple(int(s) for s in shape)
        self.data = list(data)
        self.sp = tuple(sp)
        # explicit dims *after* the spatial block (e.g. arr[..., None]); data is laid out
        # row-major over shape + trail
        self.trail = tuple(int(s) for s in trail)
        if self.trail and not self.sp:
            self.shape, self.trail = self.shape + self.trail, ()
        if len(self.data) != _prod(self.shape) * _prod(self.trail):
            raise AnalysisError(f"NdArr: {len(self.data)} elements for shape {self.shape}+{self.trail}")

    def _no_trail(self, what):
        if self.trail:
            raise AnalysisError(f"{what} on an array with explicit dims after the spatial block")

    # ------------------------------------------------------------ builders
    @staticmethod
    def from_nested(x, sp=()):
        def shape_of(v):
            if isinstance(v, (list, tuple)):
                if not v:
                    return (0,)
                s0 = shape_of(v[0])
                for w in v[1:]:
                    if shape_of(w) != s0:
                        raise Raised("ValueError", "inhomogeneous array shape")
                return (len(v),) + s0
            if isinstance(v, NdArr):
                return ("arr", v)
            return ()

        if isinstance(x, NdArr):
            return x
        if isinstance(x, (list, tuple)) and x and all(isinstance(e, NdArr) for e in x):
            return stack(list(x), 0)
        if isinstance(x, (list, tuple)) and x and any(isinstance(e, NdArr) for e in x):
            return stack([e if isinstance(e, NdArr) else NdArr((), [e]) for e in x], 0)
        sh = shape_of(x)
        flat = []

        def walk(v):
            if isinstance(v, (list, tuple)):
                for w in v:
                    walk(w)
            else:
                flat.append(v)

        walk(x)
        return NdArr(sh, flat, sp)

    def full_shape(self):
        return self.shape + tuple(d.size_rat() for d in self.sp) + self.trail

    @property
    def ndim(self):
        return len(self.shape) + len(self.sp) + len(self.trail)

    def map(self, f):
        return NdArr(self.shape, [f(x) for x in self.data], self.sp, self.trail)

    def dims(self):
        return [("e", s) for s in self.shape] + [("s", d) for d in self.sp] + [("e", s) for s in self.trail]

    def nested(self):
        def build(off, shape):
            if not shape:
                return self.data[off]
            step = _prod(shape[1:])
            return [build(off + i * step, shape[1:]) for i in range(shape[0])]

        return build(0, self.shape)

    def __repr__(self):
        return f"NdArr{self.shape}+{list(self.sp)}" + (f"+{self.trail}" if self.trail else "")

    # ------------------------------------------------------------ protocol
    def av_getattr(self, name):
        if name == "shape":
            return self.full_shape()
        if name == "ndim":
            return self.ndim
        if name == "size":
            return _prod(self.shape) if not self.sp else Rat.const(_prod(self.shape)) * _prod_rat([d.size_rat() for d in self.sp])
        if name == "dtype":
            return Unknown("dtype")
        if name == "T":
            return transpose(self, None)
        if name == "real":
            return ("__ext__", "np.real")
        if name == "imag":
            return ("__ext__", "np.imag")
        if name == "at":
            return _At(self)
        if name in METHODS:
            fn = METHODS[name]
            return Builtin(name, lambda it, a, k, _f=fn: _f(it, self, *a, **k))
        raise AnalysisError(f"NdArr attribute {name}")

    def av_len(self):
        if self.shape:
            return self.shape[0]
        if self.sp:
            return self.sp[0].size_rat()
        raise Raised("TypeError", "len() of unsized object")

    def av_iter(self):
        if not self.shape:
            raise AnalysisError("iteration over a symbolic-size axis")
        return [self.av_getitem(i) for i in range(self.shape[0])]

    def av_truth(self):
        if self.ndim == 0:
            return self.data[0]
        raise Raised("ValueError", "truth value of an array is ambiguous")

    def av_unop(self, op):
        if op == "neg":
            return self.map(lambda x: -to_rat(x) if not isinstance(x, (int, Fraction)) else -x)
        if op == "pos":
            return self
        if op == "invert":
            return self.map(lambda x: (not x) if isinstance(x, bool) else x.av_unop("not") if isinstance(x, SymBool) else 1 - to_rat(x))
        raise AnalysisError(f"NdArr unop {op}")

    def av_binop(self, op, other, reflected):
        if isinstance(other, (list, tuple)):
            other = NdArr.from_nested(other)
        if not isinstance(other, NdArr):
            if isinstance(other, AbsVal) and not isinstance(other, SymBool):
                return NotImplemented
            other = NdArr((), [other])
        a, b = (other, self) if reflected else (self, other)
        if op == "matmul":
            return matmul(a, b)
        return elementwise(lambda x, y: _scalar_binop(op, x, y), a, b)

    def av_compare(self, op, other, reflected):
        if isinstance(other, (list, tuple)):
            other = NdArr.from_nested(other)
        if not isinstance(other, NdArr):
            other = NdArr((), [other])
        from .absint import rat_compare

        def cmp(x, y):
            if isinstance(x, (bool, SymBool)) or isinstance(y, (bool, SymBool)):
                if op == "eq":
                    return x == y if isinstance(x, bool) and isinstance(y, bool) else SymBool(("beq", repr(x), repr(y)))
            return rat_compare(op, x, y)

        return elementwise(cmp, self, other)

    def av_getitem(self, idx):
        return getitem(self, idx)

    def av_merge(self, pred, other, self_is_true):
        if not isinstance(other, NdArr):
            other = NdArr((), [other])
        ind = pred.ind()
        t, f = (self, other) if self_is_true else (other, self)
        return elementwise(lambda x, y: to_rat(y) + ind * (to_rat(x) - to_rat(y)), t, f)

    def av_ext(self, name, args, kwargs, interp=None):
        fn = ARR_EXT.get(name)
        if fn is not None:
            global _INTERP
            old, _INTERP = _INTERP, interp
            try:
                return fn(args, kwargs)
            finally:
                _INTERP = old
        return NotImplemented


def _prod_rat(xs):
    r = Rat.const(1)
    for x in xs:
        r = r * x
    return r


_INTERP = None
# jax.numpy semantics for out-of-bounds integer *reads* (clamped, no error); off by default so that a rule
# has to opt in where the analysed code relies on it (isotropic (1,...) material arrays indexed by axis)
JAX_CLAMP = False


def bind_interp(interp):
    """NdArr element-wise external functions need the interpreter's scalar models."""
    global _INTERP
    _INTERP = interp


def _scalar_binop(op, x, y):
    from .absint import native_binop, rat_binop

    if isinstance(x, (Rat, SymBool)) or isinstance(y, (Rat, SymBool)):
        if isinstance(x, SymBool) and isinstance(y, (SymBool, bool)) and op in ("and", "or", "bitand", "bitor"):
            return x.av_binop(op, y, False)
        if isinstance(y, SymBool) and isinstance(x, bool) and op in ("and", "or", "bitand", "bitor"):
            return y.av_binop(op, x, True)
        return rat_binop(op, x, y)
    if isinstance(x, AbsVal):
        return x.av_binop(op, y, False)
    if isinstance(y, AbsVal):
        return y.av_binop(op, x, True)
    try:
        return native_binop(op, x, y)
    except ZeroDivisionError:
        raise Raised("ZeroDivisionError", "division by zero")


# ---------------------------------------------------------------------------
# broadcasting
# ---------------------------------------------------------------------------


def _shift_all(v, sp, shifts):
    if shifts is None:
        return v
    for d, k in zip(sp, shifts):
        if k:
            v = shift_value(v, d.axis, k)
    return v


def elementwise(f, a: NdArr, b: NdArr) -> NdArr:
    """numpy broadcasting over the full dim lists (explicit lead, spatial block, explicit trail).
    A symbolic spatial size only unifies with itself or with an explicit 1."""
    da, db = a.dims(), b.dims()
    n = max(len(da), len(db))
    pa = [None] * (n - len(da)) + da
    pb = [None] * (n - len(db)) + db
    res = []  # result dims
    sa, sb = [], []  # shifts per spatial result dim
    for x, y in zip(pa, pb):
        if x is None:
            x = ("e", 1)
        if y is None:
            y = ("e", 1)
        if x[0] == "e" and y[0] == "e":
            if x[1] == y[1] or y[1] == 1:
                res.append(("e", x[1]))
            elif x[1] == 1:
                res.append(("e", y[1]))
            else:
                raise Raised("ValueError", f"operands could not be broadcast together with shapes {a.full_shape()} {b.full_shape()}")
        elif x[0] == "s" and y[0] == "s":
            dx, dy = x[1], y[1]
            if dx.axis != dy.axis or not dx.same_size(dy):
                raise Raised("ValueError", f"operands could not be broadcast together: {dx!r} vs {dy!r} in shapes {a.full_shape()} {b.full_shape()}")
            pick = dx if abs(dx.lo) <= abs(dy.lo) else dy
            pick = pick.with_(dl=max(dx.dl, dy.dl), dh=max(dx.dh, dy.dh))
            res.append(("s", pick))
            sa.append(dx.lo - pick.lo)
            sb.append(dy.lo - pick.lo)
        else:
            e, sdim = (x, y) if x[0] == "e" else (y, x)
            if e[1] != 1:
                raise Raised(
                    "ValueError",
                    f"operands could not be broadcast together: explicit size {e[1]} against symbolic spatial size {sdim[1]!r} (shapes {a.full_shape()} {b.full_shape()})",
                )
            res.append(("s", sdim[1]))
            sa.append(0)
            sb.append(0)
    kinds = [k for k, _ in res]
    s_idx = [i for i, k in enumerate(kinds) if k == "s"]
    if s_idx and s_idx != list(range(s_idx[0], s_idx[-1] + 1)):
        raise AnalysisError("broadcast result with a non-contiguous spatial block")
    lead = [d for i, (k, d) in enumerate(res) if k == "e" and (not s_idx or i < s_idx[0])]
    trail = [d for i, (k, d) in enumerate(res) if k == "e" and s_idx and i > s_idx[-1]]
    sp = tuple(d for k, d in res if k == "s")
    e_pos = [i for i, k in enumerate(kinds) if k == "e"]

    def src_index(arr, padded, ix_by_pos):
        # explicit dims of arr in order, with their position in the padded list
        idx = []
        shape = []
        for pos, d in enumerate(padded):
            if d is not None and d[0] == "e":
                shape.append(d[1])
                idx.append(ix_by_pos.get(pos, 0) if d[1] != 1 else 0)
        return _flat_index(shape, idx) if shape else 0

    sa_use = sa if a.sp and any(sa) else None
    sb_use = sb if b.sp and any(sb) else None
    out = []
    for ix in itertools.product(*[range(res[i][1]) for i in e_pos]):
        by_pos = dict(zip(e_pos, ix))
        xa = a.data[src_index(a, pa, by_pos)]
        xb = b.data[src_index(b, pb, by_pos)]
        if sa_use is not None:
            xa = _shift_all(xa, sp, sa)
        if sb_use is not None:
            xb = _shift_all(xb, sp, sb)
        out.append(f(xa, xb))
    return NdArr(tuple(lead), out, sp, tuple(trail))


def _flat_index(shape, ix):
    off = 0
    for s, i in zip(shape, ix):
        off = off * s + i
    return off


# ---------------------------------------------------------------------------
# indexing
# ---------------------------------------------------------------------------


def _norm_index(idx, ndim):
    if not isinstance(idx, tuple):
        idx = (idx,)
    idx = list(idx)
    n_real = sum(1 for i in idx if i is not None and i is not Ellipsis)
    if any(i is Ellipsis for i in idx):
        p = [k for k, i in enumerate(idx) if i is Ellipsis][0]
        idx[p : p + 1] = [slice(None)] * (ndim - n_real)
    else:
        idx += [slice(None)] * (ndim - n_real)
    return idx


def _as_int(x):
    if x is None:
        return None
    if isinstance(x, NdArr) and not x.shape and not x.sp and not x.trail and len(x.data) == 1:
        x = x.data[0]  # 0-d array used as an index
    if isinstance(x, bool):
        return int(x)
    if isinstance(x, int):
        return x
    if isinstance(x, Fraction) and x.denominator == 1:
        return int(x)
    if isinstance(x, Rat) and x.is_const() and x.const_value().denominator == 1:
        return int(x.const_value())
    return x


def getitem(a: NdArr, idx) -> NdArr:
    if isinstance(idx, NdArr):
        return _gather(a, idx)
    idx = _norm_index(idx, a.ndim)
    ne, nsp = len(a.shape), len(a.sp)
    full_e = a.shape + a.trail
    sel = []  # per explicit source dim (lead then trail): list of indices
    lead_shape, trail_shape = [], []
    new_sp = []
    pos = 0
    sp_ops = []
    for it_ in idx:
        in_trail = nsp > 0 and pos >= ne + nsp
        if it_ is None:
            (trail_shape if in_trail else lead_shape).append(1)
            if not in_trail and ne <= pos < ne + nsp and pos != ne:
                raise AnalysisError("newaxis inside the spatial block")
            continue
        if pos < ne or in_trail:
            k = pos if pos < ne else pos - nsp
            size = full_e[k]
            tgt = trail_shape if in_trail else lead_shape
            i = _as_int(it_)
            if isinstance(i, int):
                if not -size <= i < size:
                    if not JAX_CLAMP:
                        raise Raised("IndexError", f"index {i} out of bounds for axis {pos} with size {size}")
                    i = size - 1 if i >= size else 0  # jax.numpy clamps static out-of-bounds reads
                sel.append([i % size])
            elif isinstance(i, slice):
                st = tuple(_as_int(x) for x in (i.start, i.stop, i.step))
                if not all(x is None or isinstance(x, int) for x in st):
                    raise AnalysisError(f"symbolic slice {i} on explicit axis")
                rng = list(range(size))[slice(*st)]
                sel.append(rng)
                tgt.append(len(rng))
            elif isinstance(i, (list, tuple)) or (isinstance(i, NdArr) and not i.sp and len(i.shape) == 1 and not i.trail and all(isinstance(_as_int(x), int) for x in i.data)):
                rng = [int(_as_int(x)) % size for x in (i.data if isinstance(i, NdArr) else i)]
                sel.append(rng)
                tgt.append(len(rng))
            else:
                raise AnalysisError(f"index {it_!r} on explicit axis {pos}")
        else:
            sp_ops.append((a.sp[pos - ne], it_))
        pos += 1
    data = []
    for ix in itertools.product(*sel) if sel else [()]:
        data.append(a.data[_flat_index(full_e, ix)] if full_e else a.data[0])
    # spatial part
    post_shift = []
    for d, it_ in sp_ops:
        i = _as_int(it_)
        if isinstance(i, slice):
            st, sp_, stp = (_as_int(x) for x in (i.start, i.stop, i.step))
            if stp not in (None, 1):
                if stp == -1 and st is None and sp_ is None:
                    new_sp.append(Dim(d.axis, d.n, d.lo, d.hi, ("flip", d.region)))
                    continue
                raise AnalysisError(f"strided slice {i} on spatial axis")
            lo, hi, region = d.lo, d.hi, d.region
            if st is None:
                pass
            elif isinstance(st, int):
                if st >= 0:
                    lo = d.lo + st
                else:
                    new_sp.append(_end_window(d, st, sp_))
                    continue
            else:
                new_sp.append(Dim(d.axis, d.n, 0, 0, region=("slice", _k(st), _k(sp_), d.lo)))
                continue
            if sp_ is None:
                pass
            elif isinstance(sp_, int):
                if sp_ < 0:
                    hi = d.hi + sp_
                else:
                    new_sp.append(Dim(d.axis, d.n, 0, 0, region=("fixed", lo, d.lo + sp_)))
                    continue
            else:
                new_sp.append(Dim(d.axis, d.n, 0, 0, region=("slice", _k(st), _k(sp_), d.lo)))
                continue
            new_sp.append(Dim(d.axis, d.n, lo, hi, region, max(0, d.dl - (lo - d.lo)), max(0, d.dh - (d.hi - hi))))
        elif isinstance(i, int):
            post_shift.append((d, i))
        else:
            raise AnalysisError(f"index {it_!r} on spatial axis")
    if not new_sp and trail_shape:
        lead_shape, trail_shape = lead_shape + trail_shape, []
    res = NdArr(tuple(lead_shape), data, tuple(new_sp), tuple(trail_shape))
    if post_shift:
        res = res.map(lambda v: _fix_position(v, post_shift))
    return res


def _end_window(d: Dim, st: int, stop):
    stop = _as_int(stop)
    if stop is None:
        return Dim(d.axis, d.n, 0, 0, region=("tail", d.hi + st, d.hi))
    if isinstance(stop, int) and stop < 0:
        return Dim(d.axis, d.n, 0, 0, region=("tail", d.hi + st, d.hi + stop))
    raise AnalysisError("slice with negative start and absolute stop")


def _k(x):
    if isinstance(x, Rat):
        return x.fmt()
    return repr(x)


def _fix_position(v, post_shift):
    """Mark a value as taken at a fixed index along an axis (opaque wrapper)."""
    if not isinstance(v, Rat):
        return v
    tag = tuple((d.axis, d.n, d.lo, i) for d, i in post_shift)
    mapping = {}
    for a in v.atoms():
        if isinstance(a, tuple) and a and a[0] == "at":
            mapping[a] = Rat.atom(("at", (a[1], "fixed", tag), a[2], tuple(x for x in a[3] if x not in [d.axis for d, _ in post_shift])))
    return v.subs(mapping) if mapping else v


def _gather(a: NdArr, idx: NdArr) -> NdArr:
    """a[idx] with an integer index array.  Concrete indices select rows; symbolic indices (a per-cell
    material index) give one opaque table lookup per remaining position: lookup(column, index)."""
    if all(isinstance(_as_int(i), int) for i in idx.data) and not idx.sp:
        out = [getitem(a, _as_int(i)) for i in idx.data]
        if not idx.shape:
            return out[0]
        st = stack(out, 0)
        if len(idx.shape) > 1:
            # an n-d index array: the selected rows are laid out in the index array's own shape
            if st.sp or st.trail:
                raise AnalysisError("gather with an n-d concrete index array from an array with spatial dims")
            return NdArr(idx.shape + st.shape[1:], st.data)
        return st
    if a.sp or a.trail or not a.shape:
        raise AnalysisError("gather with symbolic indices from an array with spatial dims")
    M, rest = a.shape[0], a.shape[1:]
    R = _prod(rest)
    cols = [tuple(to_rat(a.data[m * R + r]) for m in range(M)) for r in range(R)]
    data = []
    for e in idx.data:
        for r in range(R):
            data.append(Rat.atom(("lookup", cols[r], to_rat(e))))
    if idx.sp:
        if idx.trail:
            raise AnalysisError("gather: index array with trailing dims")
        return NdArr(idx.shape, data, idx.sp, rest)
    return NdArr(idx.shape + rest, data)


class _At(AbsVal):
    def __init__(self, arr, idx=None):
        self.arr = arr
        self.idx = idx

    def av_getitem(self, idx):
        return _At(self.arr, idx)

    def av_getattr(self, name):
        if name not in ("set", "add", "multiply"):
            raise AnalysisError(f".at[...].{name}")

        def f(it, a, k):
            return at_update(self.arr, self.idx, name, a[0])

        return Builtin(name, f)


def at_update(arr: NdArr, idx, mode: str, val) -> NdArr:
    """arr.at[idx].set/add/multiply(val) as base + indicator(region) * (target - base)."""
    if arr.trail:
        raise AnalysisError(".at update on an array with trailing explicit dims")
    if isinstance(idx, NdArr) and not idx.sp and idx.ndim == 1 and not arr.sp and len(arr.shape) == 1 and all(isinstance(_as_int(i), int) for i in idx.data):
        # scatter into a concrete 1-d array at concrete integer positions (later duplicates win, as in numpy)
        vals = val.data if isinstance(val, NdArr) else [val] * len(idx.data)
        if len(vals) != len(idx.data):
            raise Raised("ValueError", "incompatible shapes for .at scatter")
        data = list(arr.data)
        for i, v in zip(idx.data, vals):
            j = _as_int(i) % arr.shape[0]
            old_r, new_r = to_rat(data[j]), to_rat(v)
            data[j] = new_r if mode == "set" else (old_r + new_r if mode == "add" else old_r * new_r)
        return NdArr(arr.shape, data)
    nidx = _norm_index(idx, arr.ndim)
    if any(i is None for i in nidx):
        raise AnalysisError(".at index with newaxis")
    ne = len(arr.shape)
    exp_idx = nidx[:ne]
    sp_idx = nidx[ne:]
    full_sp = all(isinstance(i, slice) and i == slice(None) for i in sp_idx)
    sel = []
    for pos, it_ in enumerate(exp_idx):
        size = arr.shape[pos]
        i = _as_int(it_)
        if isinstance(i, int):
            sel.append([i % size])
        elif isinstance(i, slice):
            sel.append(list(range(size))[slice(*(_as_int(x) for x in (i.start, i.stop, i.step)))])
        elif isinstance(i, NdArr) and not i.sp and not i.trail and len(i.shape) == 1 and all(isinstance(_as_int(x), int) for x in i.data) and len({_as_int(x) % size for x in i.data}) == len(i.data):
            sel.append([_as_int(x) % size for x in i.data])  # distinct integer positions on an explicit axis
        else:
            raise AnalysisError(f".at index {it_!r}")
    sub = getitem(arr, tuple(exp_idx) + tuple(slice(None) for _ in sp_idx))
    target_shape = getitem(arr, tuple(nidx))  # what numpy would assign into
    if not isinstance(val, NdArr):
        val = NdArr((), [val])
    if val.sp:
        if len(val.sp) != len(target_shape.sp) or not all(a.same_size(b) for a, b in zip(val.sp, target_shape.sp)):
            raise Raised("ValueError", f"incompatible shapes for .at update: value {val.full_shape()} into {target_shape.full_shape()}")
    if full_sp:
        ind = None
    else:
        from .absint import region_key

        ind = Rat.atom(("ind", ("region", region_key(tuple(sp_idx)))))
        fixed_axes = [(d, _as_int(i)) for d, i in zip(arr.sp, sp_idx) if isinstance(_as_int(i), int)]
        if fixed_axes:
            val = val.map(lambda v: _unfix_position(v, fixed_axes))
        # the value lives on the selected sub-window; express it on the base window
        lead_missing = len(sub.shape) - len(val.shape)
        val = NdArr(val.shape, val.data, arr.sp if (val.sp or fixed_axes) else ())

    def upd(old, new):
        old_r, new_r = to_rat(old), to_rat(new)
        if mode == "set":
            tgt = new_r
        elif mode == "add":
            tgt = old_r + new_r
        else:
            tgt = old_r * new_r
        if ind is None:
            return tgt
        return old_r + ind * (tgt - old_r)

    newsub = elementwise(upd, sub, val)
    if newsub.shape != sub.shape:
        raise Raised("ValueError", f"incompatible shapes for .at update: {val.full_shape()} into {sub.full_shape()}")
    data = list(arr.data)
    k = 0
    for ix in itertools.product(*sel) if sel else [()]:
        data[_flat_index(arr.shape, ix) if arr.shape else 0] = newsub.data[k]
        k += 1
    return NdArr(arr.shape, data, arr.sp)


def _unfix_position(v, fixed_axes):
    """Inverse of _fix_position for values written back at the same fixed index."""
    if not isinstance(v, Rat):
        return v
    mapping = {}
    for a in v.atoms():
        if isinstance(a, tuple) and a and a[0] == "at" and isinstance(a[1], tuple) and len(a[1]) == 3 and a[1][1] == "fixed":
            name, _, tag = a[1]
            axes = [t[0] for t in tag]
            mapping[a] = Rat.atom(("at", name, a[2], tuple(sorted(set(a[3]) | set(axes)))))
    return v.subs(mapping) if mapping else v


# ---------------------------------------------------------------------------
# structural functions
# ---------------------------------------------------------------------------


def lift(x) -> NdArr:
    if isinstance(x, NdArr):
        return x
    if isinstance(x, (list, tuple)):
        return NdArr.from_nested(x)
    return NdArr((), [x])


def stack(arrs, axis=0) -> NdArr:
    arrs = [lift(a) for a in arrs]
    sp = ()
    for a in arrs:
        if a.sp:
            sp = a.sp
    base = arrs[0]
    for a in arrs[1:]:
        if a.shape != base.shape:
            raise Raised("ValueError", f"all input arrays must have the same shape: {base.full_shape()} vs {a.full_shape()}")
        if a.sp and base.sp and not all(x.same_size(y) for x, y in zip(a.sp, base.sp)):
            raise Raised("ValueError", f"all input arrays must have the same shape: {base.sp} vs {a.sp}")
    # align windows to the first array with spatial dims
    ref = next((a for a in arrs if a.sp), None)
    if ref is not None:
        aligned = []
        for a in arrs:
            if a.sp and a is not ref:
                a = elementwise(lambda x, y: y, NdArr((), [0], ref.sp), a) if False else _realign(a, ref.sp)
            aligned.append(a)
        arrs = aligned
        sp = ref.sp
    nd = len(base.shape) + 1 + len(sp)
    ax = axis % nd
    if ax > len(base.shape):
        raise AnalysisError("stack along a spatial axis")
    n = len(arrs)
    shape = base.shape[:ax] + (n,) + base.shape[ax:]
    data = []
    for ix in itertools.product(*[range(s) for s in shape]):
        k = ix[ax]
        sub = ix[:ax] + ix[ax + 1 :]
        data.append(arrs[k].data[_flat_index(base.shape, sub) if base.shape else 0])
    return NdArr(shape, data, sp)


def _realign(a: NdArr, sp):
    shifts = []
    for da, dr in zip(a.sp, sp):
        if not da.same_size(dr):
            raise Raised("ValueError", f"shape mismatch {da!r} vs {dr!r}")
        shifts.append(da.lo - dr.lo)
    return NdArr(a.shape, [_shift_all(v, a.sp, shifts) for v in a.data], sp)


def _rename_atoms(v, fn):
    if not isinstance(v, Rat):
        return v
    mapping = {}
    for a in v.atoms():
        if isinstance(a, tuple) and a and a[0] == "at":
            mapping[a] = Rat.atom(("at", fn(a[1]), a[2], a[3]))
    return v.subs(mapping) if mapping else v


def _concat_spatial(arrs, j):
    """Concatenation along spatial dim j: only the edge-replication idioms are modelled."""
    def win(a):
        return a.sp[j]

    def is_first_cell(d):
        return d.region is not None and d.region[0] == "fixed" and d.region[2] - d.region[1] == 1

    def is_last_cell(d):
        return d.region is not None and d.region[0] == "tail" and d.region[2] - d.region[1] == 1

    def same_expr(a, b):
        return len(a.data) == len(b.data) and all(to_rat(x).equals(to_rat(y)) for x, y in zip(a.data, b.data))

    if len(arrs) == 2:
        a, b = arrs
        da, db = win(a), win(b)
        if is_first_cell(da) and db.region is None and same_expr(a, b):
            # [x[:1], x[:-1]]  ->  x shifted down by one, first cell replicated
            full = db.with_(hi=db.hi + 1)
            if da.region[1] != db.lo:
                raise AnalysisError("concatenate: first-cell slice does not start at the window start")
            sp = list(b.sp)
            sp[j] = full
            return NdArr(b.shape, [_rename_atoms(shift_value(v, full.axis, -1), lambda n: ("edge-shift", n)) for v in b.data], tuple(sp), b.trail)
        if is_last_cell(db) and da.region is None and same_expr(a, b):
            full = da.with_(lo=da.lo - 1)
            sp = list(a.sp)
            sp[j] = full
            return NdArr(a.shape, [_rename_atoms(shift_value(v, full.axis, 1), lambda n: ("edge-shift", n)) for v in a.data], tuple(sp), a.trail)
    if len(arrs) == 3:
        a, b, c = arrs
        if is_first_cell(win(a)) and is_last_cell(win(c)) and win(b).region is None and same_expr(a, b) and same_expr(b, c):
            d = win(b)
            sp = list(b.sp)
            sp[j] = d.with_(lo=d.lo - 1, hi=d.hi + 1)
            return NdArr(b.shape, [_tag_pad(v, ((d.axis, 1, 1, "edge"),)) for v in b.data], tuple(sp), b.trail)
    raise AnalysisError("concatenate along a spatial axis: unrecognised idiom")


def concatenate(arrs, axis=0) -> NdArr:
    arrs = [lift(a) for a in arrs]
    base = arrs[0]
    ax = axis % base.ndim
    if len(base.shape) <= ax < len(base.shape) + len(base.sp):
        return _concat_spatial(arrs, ax - len(base.shape))
    if ax >= len(base.shape):
        raise AnalysisError("concatenate along a trailing explicit axis")
    nested = [a.nested() for a in arrs]

    def cat(level, items):
        if level == ax:
            out = []
            for it_ in items:
                out.extend(it_)
            return out
        return [cat(level + 1, [it_[i] for it_ in items]) for i in range(len(items[0]))]

    return NdArr.from_nested(cat(0, nested), base.sp)


def transpose(a: NdArr, axes) -> NdArr:
    nd = a.ndim
    if a.trail:
        raise AnalysisError("transpose of an array with trailing explicit dims")
    if axes is None:
        axes = tuple(reversed(range(nd)))
    axes = tuple(int(_as_int(x)) % nd for x in axes)
    ne, nsp = len(a.shape), len(a.sp)
    sp_first_in = getattr(a, "sp_first", False)
    if nsp:
        # positions of the spatial block in the *input* axis numbering
        sp_in = list(range(0, nsp)) if sp_first_in else list(range(ne, nd))
        exp_in = [x for x in range(nd) if x not in sp_in]
        sp_axes = [x for x in axes if x in sp_in]
        if sp_axes != sp_in:
            raise AnalysisError(f"transpose permuting spatial dims: {axes}")
        if list(axes[-nsp:]) == sp_in:
            sp_first_out = False
        elif list(axes[:nsp]) == sp_in:
            sp_first_out = True
        else:
            raise AnalysisError(f"transpose interleaving spatial dims: {axes}")
        axes_e = tuple(exp_in.index(x) for x in axes if x in exp_in)
    else:
        axes_e = axes
        sp_first_out = False
    shape = tuple(a.shape[x] for x in axes_e)
    data = []
    for ix in itertools.product(*[range(s) for s in shape]):
        src = [0] * len(a.shape)
        for k, x in enumerate(axes_e):
            src[x] = ix[k]
        data.append(a.data[_flat_index(a.shape, src)])
    out = NdArr(shape, data, a.sp)
    if sp_first_out:
        out.sp_first = True
    return out


def reshape(a: NdArr, new_shape) -> NdArr:
    if len(new_shape) == 1 and isinstance(new_shape[0], (tuple, list)):
        new_shape = tuple(new_shape[0])
    new_shape = [_as_int(x) for x in new_shape]
    total = _prod(a.shape)
    if len(a.sp) == 1 and not a.shape and not a.trail and len(new_shape) > 1:
        # 1-D array reshaped for broadcasting: its size once, 1 everywhere else
        d = a.sp[0]
        hits = [i for i, t in enumerate(new_shape) if isinstance(t, Rat) and t.equals(d.size_rat())]
        ones = [i for i, t in enumerate(new_shape) if t == 1]
        if len(hits) == 1 and len(hits) + len(ones) == len(new_shape):
            return NdArr((1,) * hits[0], a.data, a.sp, (1,) * (len(new_shape) - hits[0] - 1))
        raise AnalysisError(f"reshape of a 1-D spatial array to {new_shape}")
    if a.sp:
        # trailing entries equal to the spatial sizes stay implicit
        k = len(a.sp)
        tail = new_shape[-k:]
        ok = len(tail) == k and all(isinstance(t, Rat) and t.equals(d.size_rat()) for t, d in zip(tail, a.sp))
        if not ok:
            raise AnalysisError(f"reshape of an array with spatial dims to {new_shape}")
        lead = new_shape[:-k]
        return NdArr(_resolve_shape(lead, total), a.data, a.sp)
    return NdArr(_resolve_shape(new_shape, total), a.data, ())


def _resolve_shape(shape, total):
    shape = list(shape)
    if any(not isinstance(s, int) for s in shape):
        raise AnalysisError(f"symbolic reshape target {shape}")
    if -1 in shape:
        i = shape.index(-1)
        rest = _prod([s for j, s in enumerate(shape) if j != i])
        shape[i] = total // rest if rest else 0
    if _prod(shape) != total:
        raise Raised("ValueError", f"cannot reshape array of size {total} into shape {tuple(shape)}")
    return tuple(shape)


def reduce_axes(it, a: NdArr, axis, kind: str):
    """sum / mean over axes (explicit: exact fold; spatial: linear operator atom)."""
    from .extlib import linear_op

    nd = a.ndim
    if axis is None:
        axes = list(range(nd))
    elif isinstance(axis, (tuple, list)):
        axes = [int(_as_int(x)) % nd for x in axis]
    else:
        axes = [int(_as_int(axis)) % nd]
    ne = len(a.shape)
    if a.trail:
        return _reduce_with_trail(it, a, axes, kind)
    e_axes = sorted(x for x in axes if x < ne)
    s_axes = sorted(x - ne for x in axes if x >= ne)
    cur = a
    # explicit
    for ax in reversed(e_axes):
        n = cur.shape[ax]
        shape = cur.shape[:ax] + cur.shape[ax + 1 :]
        data = []
        for ix in itertools.product(*[range(s) for s in shape]):
            tot = None
            for j in range(n):
                v = cur.data[_flat_index(cur.shape, ix[:ax] + (j,) + ix[ax:])]
                tot = v if tot is None else _scalar_binop("add", tot, v)
            if tot is None:
                tot = 0
            if kind == "mean":
                tot = _scalar_binop("div", tot, n)
            data.append(tot)
        cur = NdArr(shape, data, cur.sp)
    if s_axes:
        tag = ",".join(f"{cur.sp[i].axis}:{cur.sp[i]!r}" for i in s_axes)
        rest = tuple(d for i, d in enumerate(cur.sp) if i not in s_axes)
        cur = NdArr(cur.shape, [linear_op(f"{kind}[{tag}]", to_rat(v)) for v in cur.data], rest)
    if cur.ndim == 0:
        return cur.data[0]
    return cur


def _reduce_with_trail(it, a: NdArr, axes, kind):
    ne, nsp = len(a.shape), len(a.sp)
    if any(x < ne + nsp for x in axes):
        raise AnalysisError("reduction over lead/spatial axes of an array with trailing explicit dims")
    t_axes = sorted(x - ne - nsp for x in axes)
    full = a.shape + a.trail
    keep_t = [i for i in range(len(a.trail)) if i not in t_axes]
    out_shape_t = tuple(a.trail[i] for i in keep_t)
    data = []
    for lead_ix in itertools.product(*[range(s) for s in a.shape]):
        for keep_ix in itertools.product(*[range(a.trail[i]) for i in keep_t]):
            vals = []
            for red_ix in itertools.product(*[range(a.trail[i]) for i in t_axes]):
                tix = [0] * len(a.trail)
                for i, v in zip(keep_t, keep_ix):
                    tix[i] = v
                for i, v in zip(t_axes, red_ix):
                    tix[i] = v
                vals.append(a.data[_flat_index(full, lead_ix + tuple(tix))])
            data.append(_fold(it, vals, kind))
    return NdArr(a.shape, data, a.sp, out_shape_t)


def _fold(it, vals, kind):
    if kind in ("sum", "mean"):
        tot = vals[0]
        for v in vals[1:]:
            tot = _scalar_binop("add", tot, v)
        return _scalar_binop("div", tot, len(vals)) if kind == "mean" else tot
    if kind in ("argmin", "argmax"):
        return Rat.atom(("call", kind) + tuple(to_rat(v) for v in vals))
    raise AnalysisError(f"reduction {kind}")


def arg_reduce(it, a: NdArr, axis, kind):
    """argmin / argmax over one explicit axis: opaque atom over the candidates, in order."""
    nd = a.ndim
    if axis is None:
        raise AnalysisError(f"{kind} without axis")
    ax = int(_as_int(axis)) % nd
    ne, nsp = len(a.shape), len(a.sp)
    if ne <= ax < ne + nsp:
        raise AnalysisError(f"{kind} over a spatial axis")
    if a.trail:
        return _reduce_with_trail(it, a, [ax], kind)
    n = a.shape[ax]
    shape = a.shape[:ax] + a.shape[ax + 1 :]
    data = []
    for ix in itertools.product(*[range(s) for s in shape]):
        vals = [a.data[_flat_index(a.shape, ix[:ax] + (j,) + ix[ax:])] for j in range(n)]
        data.append(_fold(it, vals, kind))
    return NdArr(shape, data, a.sp)


def squeeze(a: NdArr, axis=None):
    if axis is None:
        keep = [i for i, s in enumerate(a.shape) if s != 1]
    else:
        axes = [axis] if not isinstance(axis, (tuple, list)) else list(axis)
        axes = [int(_as_int(x)) % a.ndim for x in axes]
        for x in axes:
            if x >= len(a.shape):
                raise AnalysisError("squeeze of a spatial axis")
            if a.shape[x] != 1:
                raise Raised("ValueError", "cannot select an axis to squeeze out which has size not equal to one")
        keep = [i for i in range(len(a.shape)) if i not in axes]
    return NdArr(tuple(a.shape[i] for i in keep), a.data, a.sp)


def expand_dims(a: NdArr, axis):
    axes = [axis] if not isinstance(axis, (tuple, list)) else list(axis)
    nd = a.ndim + len(axes)
    axes = sorted(int(_as_int(x)) % nd for x in axes)
    shape = list(a.shape)
    for x in axes:
        if x > len(shape):
            raise AnalysisError("expand_dims inside the spatial block")
        shape.insert(x, 1)
    return NdArr(tuple(shape), a.data, a.sp)


def moveaxis(a: NdArr, src, dst):
    nd = a.ndim
    if a.trail and not a.shape:
        # (spatial..., t0, t1, ...) -> (t.., spatial...): trailing explicit dims moved in front of the spatial block
        s_ = [src] if not isinstance(src, (tuple, list)) else list(src)
        d_ = [dst] if not isinstance(dst, (tuple, list)) else list(dst)
        s_ = [int(_as_int(x)) % nd for x in s_]
        d_ = [int(_as_int(x)) % nd for x in d_]
        t = len(a.trail)
        first_trail = nd - t
        if sorted(s_) != list(range(first_trail, nd)) or sorted(d_) != list(range(t)):
            raise AnalysisError(f"moveaxis {src}->{dst} on an array with trailing dims")
        order = [None] * t  # order[new position] = trail index
        for sa_, da_ in zip(s_, d_):
            order[da_] = sa_ - first_trail
        new_shape = tuple(a.trail[k] for k in order)
        data = []
        for ix in itertools.product(*[range(n) for n in new_shape]):
            srcix = [0] * t
            for newpos, k in enumerate(order):
                srcix[k] = ix[newpos]
            data.append(a.data[_flat_index(a.trail, srcix)])
        return NdArr(new_shape, data, a.sp)
    src = [src] if not isinstance(src, (tuple, list)) else list(src)
    dst = [dst] if not isinstance(dst, (tuple, list)) else list(dst)
    src = [int(_as_int(x)) % nd for x in src]
    dst = [int(_as_int(x)) % nd for x in dst]
    order = [i for i in range(nd) if i not in src]
    for d, s in sorted(zip(dst, src)):
        order.insert(d, s)
    return transpose(a, order)


def _m_reshape(it, a, *shape, **k):
    return reshape(a, shape)


def _m_astype(it, a, *args, **k):
    return a


def _m_sum(it, a, axis=None, **k):
    return reduce_axes(it, a, axis, "sum")


def _m_mean(it, a, axis=None, **k):
    return reduce_axes(it, a, axis, "mean")


def _m_transpose(it, a, *axes):
    if len(axes) == 1 and isinstance(axes[0], (tuple, list)):
        axes = tuple(axes[0])
    return transpose(a, axes or None)


def _m_conj(it, a):
    return a.map(lambda v: it.call_ext("np.conj", [v], {}))


def _m_flatten(it, a):
    if a.sp:
        raise AnalysisError("flatten of array with spatial dims")
    return NdArr((len(a.data),), a.data)


METHODS = {
    "reshape": _m_reshape,
    "astype": _m_astype,
    "sum": _m_sum,
    "mean": _m_mean,
    "transpose": _m_transpose,
    "conj": _m_conj,
    "conjugate": _m_conj,
    "flatten": _m_flatten,
    "ravel": _m_flatten,
    "squeeze": lambda it, a, axis=None: squeeze(a, axis),
    "copy": lambda it, a: a,
    "tolist": lambda it, a: a.nested(),
    "item": lambda it, a: a.data[0],
}


def _ew_ext(name):
    def f(args, kwargs):
        it = _INTERP
        if it is None:
            raise AnalysisError("ndarr.bind_interp not called")
        arrs = [lift(x) if isinstance(x, (NdArr, list, tuple)) else NdArr((), [x]) for x in args]
        if len(arrs) == 1:
            return arrs[0].map(lambda v: it.call_ext(name, [v], kwargs))
        if len(arrs) == 2:
            return elementwise(lambda x, y: it.call_ext(name, [x, y], kwargs), arrs[0], arrs[1])
        if len(arrs) == 3:
            ab = elementwise(lambda x, y: (x, y), arrs[0], arrs[1])
            return elementwise(lambda xy, z: it.call_ext(name, [xy[0], xy[1], z], kwargs), ab, arrs[2])
        raise AnalysisError(f"{name} with {len(arrs)} array args")

    return f


ARR_EXT = {}
for _n in ("exp", "sin", "cos", "tanh", "sqrt", "abs", "absolute", "square", "real", "imag", "conj", "conjugate", "floor", "ceil", "round", "sign", "isinf", "isnan", "log", "expm1", "logical_not", "rint"):
    ARR_EXT[f"np.{_n}"] = _ew_ext(f"np.{_n}")
for _n in ("maximum", "minimum", "power", "logical_and", "logical_or", "where", "clip"):
    ARR_EXT[f"np.{_n}"] = _ew_ext(f"np.{_n}")


def _x_stack(args, kw):
    axis = kw.get("axis", args[1] if len(args) > 1 else 0)
    return stack(list(args[0]), _as_int(axis))


def _x_concat(args, kw):
    axis = kw.get("axis", args[1] if len(args) > 1 else 0)
    return concatenate(list(args[0]), _as_int(axis))


def _x_sum(args, kw):
    axis = kw.get("axis", args[1] if len(args) > 1 else None)
    return reduce_axes(_INTERP, lift(args[0]), axis, "sum")


def _x_mean(args, kw):
    axis = kw.get("axis", args[1] if len(args) > 1 else None)
    return reduce_axes(_INTERP, lift(args[0]), axis, "mean")


def _x_asarray(args, kw):
    return lift(args[0])


def _x_transpose(args, kw):
    axes = kw.get("axes", args[1] if len(args) > 1 else None)
    return transpose(lift(args[0]), axes)


def _x_reshape(args, kw):
    shp = kw.get("shape", kw.get("newshape", args[1] if len(args) > 1 else None))
    return reshape(lift(args[0]), (shp,) if isinstance(shp, (tuple, list)) else (shp,))


def _x_squeeze(args, kw):
    return squeeze(lift(args[0]), kw.get("axis", args[1] if len(args) > 1 else None))


def _x_expand(args, kw):
    return expand_dims(lift(args[0]), kw.get("axis", args[1] if len(args) > 1 else None))


def _x_moveaxis(args, kw):
    return moveaxis(lift(args[0]), args[1], args[2])


def _x_broadcast_to(args, kw):
    """np.broadcast_to for concrete arrays (numpy rules: align trailing axes, extent one stretches)"""
    a = lift(args[0])
    shape = kw.get("shape", args[1] if len(args) > 1 else None)
    if a.sp or a.trail:
        raise AnalysisError("np.broadcast_to on a symbolic-dimension array")
    shape = tuple(int(_as_int(x)) for x in shape)
    src = (1,) * (len(shape) - len(a.shape)) + a.shape
    if len(src) != len(shape) or any(s_ != 1 and s_ != t_ for s_, t_ in zip(src, shape)):
        raise Raised("ValueError", f"cannot broadcast {a.shape} to {shape}")
    data = []
    for ix in itertools.product(*[range(n) for n in shape]):
        j = tuple(0 if s_ == 1 else i for i, s_ in zip(ix, src))
        data.append(a.data[_flat_index(src, j)])
    return NdArr(shape, data)


def _x_swapaxes(args, kw):
    a = lift(args[0])
    i, j = int(_as_int(args[1])) % a.ndim, int(_as_int(args[2])) % a.ndim
    axes = list(range(a.ndim))
    axes[i], axes[j] = axes[j], axes[i]
    return transpose(a, tuple(axes))


def _x_repeat(args, kw):
    """np.repeat of a concrete array with an integer count (flattened when no axis is given, as numpy does)"""
    a = lift(args[0])
    reps = _as_int(kw.get("repeats", args[1] if len(args) > 1 else None))
    axis = kw.get("axis", args[2] if len(args) > 2 else None)
    if a.sp or a.trail or not isinstance(reps, int):
        raise AnalysisError("np.repeat on a symbolic-dimension array or with a non-integer count")
    if axis is None:
        return NdArr((len(a.data) * reps,), [v for v in a.data for _ in range(reps)])
    axis = int(_as_int(axis)) % len(a.shape)
    shape = a.shape[:axis] + (a.shape[axis] * reps,) + a.shape[axis + 1 :]
    data = []
    for ix in itertools.product(*[range(n) for n in shape]):
        src = ix[:axis] + (ix[axis] // reps,) + ix[axis + 1 :]
        data.append(a.data[_flat_index(a.shape, src)])
    return NdArr(shape, data)


def _x_take(args, kw):
    a = lift(args[0])
    i = kw.get("indices", args[1] if len(args) > 1 else None)
    axis = kw.get("axis", args[2] if len(args) > 2 else None)
    if axis is None:
        raise AnalysisError("np.take without axis")
    axis = int(_as_int(axis)) % a.ndim
    idx = [slice(None)] * a.ndim
    i = _as_int(i)
    if isinstance(i, int) and axis >= len(a.shape):
        # single plane of a spatial axis, dimension dropped
        d = a.sp[axis - len(a.shape)]
        sp = tuple(x for k, x in enumerate(a.sp) if k != axis - len(a.shape))
        tag = ("plane", d.axis, d.n, d.lo, d.hi, i)
        return NdArr(a.shape, [_plane(v, tag, d.axis) for v in a.data], sp)
    idx[axis] = i
    return getitem(a, tuple(idx))


def _plane(v, tag, axis):
    if not isinstance(v, Rat):
        return v
    mapping = {}
    for a in v.atoms():
        if isinstance(a, tuple) and a and a[0] == "at":
            mapping[a] = Rat.atom(("at", (a[1], tag), a[2], tuple(x for x in a[3] if x != axis)))
    return v.subs(mapping) if mapping else v


def _x_zeros_like(args, kw):
    a = lift(args[0])
    return a.map(lambda v: 0)


def _x_ones_like(args, kw):
    a = lift(args[0])
    return a.map(lambda v: 1)


def _x_cross(args, kw):
    a, b = lift(args[0]), lift(args[1])
    axis = kw.get("axis", -1)
    axisa = kw.get("axisa", axis)
    nd = a.ndim
    ax = int(_as_int(axisa)) % nd
    if ax >= len(a.shape) or a.shape[ax] != 3:
        raise AnalysisError(f"cross along axis {ax} of {a!r}")

    def comp(arr, i):
        idx = [slice(None)] * len(arr.shape)
        idx[ax] = i
        return getitem(arr, tuple(idx))

    def mul(x, y):
        return elementwise(lambda p, q: _scalar_binop("mul", p, q), x, y)

    def sub(x, y):
        return elementwise(lambda p, q: _scalar_binop("sub", p, q), x, y)

    c = [
        sub(mul(comp(a, 1), comp(b, 2)), mul(comp(a, 2), comp(b, 1))),
        sub(mul(comp(a, 2), comp(b, 0)), mul(comp(a, 0), comp(b, 2))),
        sub(mul(comp(a, 0), comp(b, 1)), mul(comp(a, 1), comp(b, 0))),
    ]
    return stack(c, ax)


def _x_pad(args, kw):
    if not args and "array" in kw:
        args = [kw["array"]]
    a = lift(args[0])
    pw = kw.get("pad_width", args[1] if len(args) > 1 else None)
    mode = kw.get("mode", args[2] if len(args) > 2 else "constant")
    pw = [tuple(_as_int(x) for x in p) for p in pw]
    if len(pw) != a.ndim:
        raise AnalysisError(f"np.pad: pad_width rank {len(pw)} for array of rank {a.ndim}")
    ne = len(a.shape)
    if not a.sp and not a.trail:
        return _pad_concrete(a, pw, mode, kw.get("constant_values", 0))
    if any(p != (0, 0) for p in pw[:ne]) or a.trail:
        raise AnalysisError("np.pad on an explicit axis")
    sp = []
    tags = []
    for d, (b, e) in zip(a.sp, pw[ne:]):
        sp.append(d.with_(lo=d.lo - b, hi=d.hi + e))
        if (b, e) != (0, 0):
            tags.append((d.axis, b, e, mode))
    if not tags:
        return a
    return NdArr(a.shape, [_tag_pad(v, tuple(tags)) for v in a.data], tuple(sp))


def _pad_concrete(a, pw, mode, cval=0):
    """np.pad of a concrete array, axis by axis (numpy pads the axes in order, so corners are filled from the
    already padded array)."""
    if isinstance(cval, (list, tuple, NdArr)):
        raise AnalysisError("np.pad: per-axis constant_values")
    out = a
    for axis, (b, e) in enumerate(pw):
        if (b, e) == (0, 0):
            continue
        n = out.shape[axis]

        def src(i, _n=n):
            # index into the unpadded axis for padded position i - b
            j = i - b
            if 0 <= j < _n:
                return j
            if mode == "constant":
                return None
            if mode == "edge":
                return min(max(j, 0), _n - 1)
            if mode == "wrap":
                return j % _n
            if mode in ("reflect", "symmetric"):
                if _n == 1:
                    return 0
                period = 2 * (_n - 1) if mode == "reflect" else 2 * _n
                j %= period
                if mode == "reflect":
                    return j if j < _n else period - j
                return j if j < _n else period - 1 - j
            raise AnalysisError(f"np.pad mode {mode!r}")

        new_shape = out.shape[:axis] + (n + b + e,) + out.shape[axis + 1 :]
        data = []
        for ix in itertools.product(*[range(x) for x in new_shape]):
            j = src(ix[axis])
            if j is None:
                data.append(cval)
            else:
                data.append(out.data[_flat_index(out.shape, ix[:axis] + (j,) + ix[axis + 1 :])])
        out = NdArr(new_shape, data)
    return out


def _tag_pad(v, tags):
    """Record the halo mode on every positional atom: name -> ('pad', name, ((axis,b,e,mode),...))."""
    if not isinstance(v, Rat):
        if isinstance(v, (int, Fraction)) and v == 0:
            return v
        v = to_rat(v)
    mapping = {}
    for a in v.atoms():
        if isinstance(a, tuple) and a and a[0] == "at":
            name = a[1]
            if isinstance(name, tuple) and name and name[0] == "pad":
                name = ("pad", name[1], tuple(sorted(set(name[2]) | set(tags))))
            else:
                name = ("pad", name, tuple(sorted(tags)))
            mapping[a] = Rat.atom(("at", name, a[2], a[3]))
    return v.subs(mapping) if mapping else v


def strip_pad(v):
    """Forget halo-mode tags (interior semantics)."""
    if not isinstance(v, Rat):
        return v
    mapping = {}
    for a in v.atoms():
        if isinstance(a, tuple) and a and a[0] == "at" and isinstance(a[1], tuple) and a[1] and a[1][0] == "pad":
            mapping[a] = Rat.atom(("at", a[1][1], a[2], a[3]))
    return v.subs(mapping) if mapping else v


def pad_tags(v) -> set:
    out = set()
    if isinstance(v, Rat):
        for a in v.atoms():
            if isinstance(a, tuple) and a and a[0] == "at" and isinstance(a[1], tuple) and a[1] and a[1][0] == "pad":
                out.add((a[1][1], a[1][2]))
    return out


def _x_roll(args, kw):
    a = lift(args[0])
    shift = kw.get("shift", args[1] if len(args) > 1 else None)
    axis = kw.get("axis", args[2] if len(args) > 2 else None)
    if axis is None:
        if a.ndim != 1:
            raise AnalysisError("np.roll without axis on a multi-dimensional array")
        axis = 0
    shifts = list(shift) if isinstance(shift, (tuple, list)) else [shift]
    axes = list(axis) if isinstance(axis, (tuple, list)) else [axis]
    if len(shifts) != len(axes):
        raise Raised("ValueError", "roll: shift and axis must have the same length")
    ne = len(a.shape)
    cur = a
    for k, ax in zip(shifts, axes):
        k = _as_int(k)
        ax = int(_as_int(ax)) % a.ndim
        if not isinstance(k, int):
            raise AnalysisError("symbolic roll shift")
        if ax < ne:
            idx = [slice(None)] * len(cur.shape)
            n = cur.shape[ax]
            order = [(i - k) % n for i in range(n)]
            idx[ax] = order
            cur = getitem(cur, tuple(idx))
        else:
            j = ax - ne
            d = cur.sp[j]
            sp = list(cur.sp)
            # out[i] = in[i - k]: low end contaminated for k > 0, high end for k < 0
            sp[j] = d.with_(dl=d.dl + max(k, 0), dh=d.dh + max(-k, 0))
            cur = NdArr(cur.shape, [shift_value(v, d.axis, -k) for v in cur.data], tuple(sp), cur.trail)
    return cur


def assert_clean(a: "NdArr", what=""):
    for d in a.sp:
        if d.dl or d.dh:
            raise AnalysisError(f"{what}: wrap-around cells of a rolled array survive ({d!r})")


def _x_eye(args, kw):
    n = int(_as_int(args[0]))
    return NdArr((n, n), [1 if i == j else 0 for i in range(n) for j in range(n)])


def _x_einsum(args, kw):
    spec = args[0]
    ops = [lift(x) for x in args[1:]]
    if not isinstance(spec, str):
        raise AnalysisError("einsum with non-literal subscripts")
    ins, out = spec.replace(" ", "").split("->")
    ins = ins.split(",")
    if len(ins) != len(ops):
        raise AnalysisError("einsum operand count")
    sizes = {}
    sp = ()
    exp_labels = []
    for lab, op in zip(ins, ops):
        ne = len(op.shape)
        nsp = len(op.sp)
        if len(lab) != ne + nsp or op.trail:
            raise AnalysisError(f"einsum: labels {lab!r} for {op!r}")
        for ch, n in zip(lab[:ne], op.shape):
            if sizes.setdefault(ch, n) != n:
                raise Raised("ValueError", f"einsum size mismatch for {ch}")
        if nsp:
            sp_lab = lab[ne:]
            if sp and sp_labels != sp_lab:
                raise AnalysisError("einsum with differing spatial labels")
            sp_labels = sp_lab
            sp = op.sp
        exp_labels.append(lab[:ne])
    out_exp = out[: len(out) - len(sp)] if sp else out
    if sp and out[len(out_exp):] != sp_labels:
        raise AnalysisError("einsum reducing over spatial labels")
    summed = sorted(set("".join(exp_labels)) - set(out_exp))
    data = []
    for oix in itertools.product(*[range(sizes[c]) for c in out_exp]):
        env = dict(zip(out_exp, oix))
        tot = 0
        for six in itertools.product(*[range(sizes[c]) for c in summed]):
            env.update(zip(summed, six))
            term = 1
            for lab, op in zip(exp_labels, ops):
                v = op.data[_flat_index(op.shape, [env[c] for c in lab]) if op.shape else 0]
                term = _scalar_binop("mul", term, v)
            tot = _scalar_binop("add", tot, term)
        data.append(tot)
    return NdArr(tuple(sizes[c] for c in out_exp), data, sp)


def _x_flip(args, kw):
    a = lift(args[0])
    axis = kw.get("axis", args[1] if len(args) > 1 else None)
    if axis is None:
        axes = list(range(a.ndim))
    else:
        axes = [axis] if not isinstance(axis, (tuple, list)) else list(axis)
    idx = [slice(None)] * a.ndim
    for x in axes:
        x = _as_int(x)
        if not isinstance(x, int) or not -a.ndim <= x < a.ndim:
            raise Raised("ValueError", f"flip axis {x!r} out of range for ndim {a.ndim}")
        idx[x % a.ndim] = slice(None, None, -1)
    return getitem(a, tuple(idx))


def _x_meshgrid(args, kw):
    """np.meshgrid of concrete 1-D arrays (indexing 'ij' or 'xy')."""
    import itertools as _it

    vs = [lift(v) for v in args]
    if any(v.sp or v.ndim != 1 for v in vs):
        raise AnalysisError("meshgrid model: concrete 1-D inputs expected")
    order = kw.get("indexing", "xy")
    if order not in ("ij", "xy"):
        raise Raised("ValueError", "meshgrid indexing")
    lens = [v.shape[0] for v in vs]
    if order == "xy" and len(vs) >= 2:
        shape = (lens[1], lens[0]) + tuple(lens[2:])
        pos = lambda d, ix: ix[1] if d == 0 else ix[0] if d == 1 else ix[d]
    else:
        shape = tuple(lens)
        pos = lambda d, ix: ix[d]
    return [NdArr(shape, [vs[d].data[pos(d, ix)] for ix in _it.product(*[range(n) for n in shape])]) for d in range(len(vs))]


def _x_dot(args, kw):
    """np.dot(a, b) with b 1-D: contraction of the last axis of a (concrete shapes)."""
    a, b = lift(args[0]), lift(args[1])
    if a.sp or b.sp or b.ndim != 1 or a.ndim < 1 or a.shape[-1] != b.shape[0]:
        raise AnalysisError(f"dot model: concrete (..., n) . (n,) expected, got {a.shape} . {b.shape}")
    n = b.shape[0]
    out = []
    for r in range(len(a.data) // n):
        tot = Rat.const(0)
        for j in range(n):
            tot = tot + to_rat(a.data[r * n + j]) * to_rat(b.data[j])
        out.append(tot)
    if a.ndim == 1:
        return out[0]
    return NdArr(a.shape[:-1], out)


def matmul(a, b):
    """a @ b for concrete 1-D / 2-D operands."""
    if a.sp or b.sp or a.ndim not in (1, 2) or b.ndim not in (1, 2):
        raise AnalysisError(f"matmul model: concrete 1-D / 2-D operands, got {a.shape} @ {b.shape}")
    A = a if a.ndim == 2 else NdArr((1, a.shape[0]), list(a.data))
    B = b if b.ndim == 2 else NdArr((b.shape[0], 1), list(b.data))
    if A.shape[1] != B.shape[0]:
        raise Raised("TypeError", f"matmul shapes {a.shape} @ {b.shape}")
    n, m, p = A.shape[0], A.shape[1], B.shape[1]
    out = []
    for i in range(n):
        for j in range(p):
            tot = Rat.const(0)
            for k in range(m):
                tot = tot + to_rat(A.data[i * m + k]) * to_rat(B.data[k * p + j])
            out.append(tot)
    if a.ndim == 1 and b.ndim == 1:
        return out[0]
    if a.ndim == 1:
        return NdArr((p,), out)
    if b.ndim == 1:
        return NdArr((n,), out)
    return NdArr((n, p), out)


def _x_norm(args, kw):
    """np.linalg.norm of a concrete array without axis / ord: sqrt of the sum of squares."""
    from .poly import apply_fn

    a = lift(args[0])
    if kw.get("axis") is not None and len(args) == 1 and kw.get("ord") is None:
        sq = a.map(lambda v: to_rat(v) * to_rat(v))
        red = reduce_axes(_INTERP, sq, kw["axis"], "sum")
        rt = lambda v: apply_fn("sqrt", to_rat(v))
        return red.map(rt) if isinstance(red, NdArr) else rt(red)
    if a.sp or len(args) > 1 or kw.get("axis") is not None or kw.get("ord") is not None:
        raise AnalysisError("norm model: concrete array, default ord, no axis")
    tot = Rat.const(0)
    for v in a.data:
        r = to_rat(v)
        tot = tot + r * r
    if not tot.is_const() and tot.n == tot.d:
        return Rat.const(1)
    if tot.is_const() and tot.const_value() >= 0:
        from math import isqrt

        c = tot.const_value()
        rn, rd = isqrt(c.numerator), isqrt(c.denominator)
        if rn * rn == c.numerator and rd * rd == c.denominator:
            return Rat.const(Fraction(rn, rd))
    return apply_fn("sqrt", tot)


def _x_diff(args, kw):
    """np.diff along one explicit axis of a concrete-extent axis (n = 1)."""
    a = lift(args[0])
    axis = kw.get("axis", args[2] if len(args) > 2 else -1)
    if kw.get("n", args[1] if len(args) > 1 else 1) != 1:
        raise AnalysisError("diff model: n = 1")
    ax = int(_as_int(axis)) % a.ndim
    if ax >= len(a.shape):
        raise AnalysisError("diff over a spatial axis")
    n = a.shape[ax]
    hi = getitem(a, tuple([slice(None)] * ax + [slice(1, n)]))
    lo = getitem(a, tuple([slice(None)] * ax + [slice(0, n - 1)]))
    return elementwise(lambda x, y: to_rat(x) - to_rat(y), hi, lo)


ARR_EXT.update(
    {
        "np.flip": _x_flip,
        "np.diff": _x_diff,
        "np.linalg.norm": _x_norm,
        "np.matmul": lambda args, kw: matmul(lift(args[0]), lift(args[1])),
        "np.meshgrid": _x_meshgrid,
        "np.dot": _x_dot,
        "np.pad": _x_pad,
        "np.roll": _x_roll,
        "np.eye": _x_eye,
        "np.einsum": _x_einsum,
        "np.stack": _x_stack,
        "np.concatenate": _x_concat,
        "np.sum": _x_sum,
        "np.mean": _x_mean,
        "np.asarray": _x_asarray,
        "np.array": _x_asarray,
        "np.transpose": _x_transpose,
        "np.swapaxes": _x_swapaxes,
        "np.broadcast_to": _x_broadcast_to,
        "np.repeat": _x_repeat,
        "np.reshape": _x_reshape,
        "np.squeeze": _x_squeeze,
        "np.expand_dims": _x_expand,
        "np.moveaxis": _x_moveaxis,
        "np.take": _x_take,
        "np.zeros_like": _x_zeros_like,
        "np.ones_like": _x_ones_like,
        "np.cross": _x_cross,
        "lax.stop_gradient": lambda args, kw: lift(args[0]).map(lambda v: _INTERP.call_ext("lax.stop_gradient", [v], {})),
        "np.argmin": lambda args, kw: arg_reduce(_INTERP, lift(args[0]), kw.get("axis", args[1] if len(args) > 1 else None), "argmin"),
        "np.argmax": lambda args, kw: arg_reduce(_INTERP, lift(args[0]), kw.get("axis", args[1] if len(args) > 1 else None), "argmax"),
        "np.shape": lambda args, kw: lift(args[0]).full_shape(),
        "np.ndim": lambda args, kw: lift(args[0]).ndim,
    }
)
