"""Shared extraction of the FDTD kernel's tables (T-curl, T-pml, update normal forms)."""

from __future__ import annotations

from .harness import stub_repo_calls
from .index import AnalysisError
from .ndarr import NdArr, field_atom, pad_tags, strip_pad
from .poly import Rat
from .scene import SP, Scene, vec
from .values import Obj, Raised, to_rat

EPS = {(0, 1, 2): 1, (1, 2, 0): 1, (2, 0, 1): 1, (0, 2, 1): -1, (2, 1, 0): -1, (1, 0, 2): -1}


def levi(i, a, j):
    return EPS.get((i, a, j), 0)


def e_(axis, k=1):
    s = [0, 0, 0]
    s[axis] = k
    return tuple(s)


def scale_atom(axis, stencil):
    return Rat.atom(("scale", axis, stencil))


def curl_oracle(F: str, kind: str, scaled: bool = False) -> list[Rat]:
    """(curl F)_i = sum_{a,j} eps_{iaj} d_a F_j with forward (curl_E) or backward (curl_H) differences."""
    out = []
    for i in range(3):
        tot = Rat.const(0)
        for a in range(3):
            for j in range(3):
                s = levi(i, a, j)
                if not s:
                    continue
                if kind == "forward":
                    d = to_rat(field_atom(f"{F}{j}", e_(a, 1))) - to_rat(field_atom(f"{F}{j}"))
                else:
                    d = to_rat(field_atom(f"{F}{j}")) - to_rat(field_atom(f"{F}{j}", e_(a, -1)))
                if scaled:
                    d = d * scale_atom(a, kind)
                tot = tot + s * d
        out.append(tot)
    return out


def metric_stub(interp):
    """Replace _metric_scale by a distinct atom per (axis, stencil)."""

    def f(it, a, k):
        axis = k.get("axis", a[1] if len(a) > 1 else None)
        stencil = k.get("stencil", a[3] if len(a) > 3 else None)
        return scale_atom(axis, stencil)

    stub_repo_calls(interp, {"fdtdx.core.physics.curl._metric_scale": f})


def run_curl(ctx, which: str, pmls=(), nonuniform=False, simulate=True):
    """Interpret curl_E / curl_H on the padded symbolic field. Returns (curl NdArr, psi dict, scene)."""
    it = ctx.fresh_interp()
    sc = Scene(ctx.index, it)
    if nonuniform:
        metric_stub(it)
    cfg = sc.config(has_nonuniform_grid=nonuniform)
    F = "E" if which == "curl_E" else "H"
    fld = vec(F)
    pad = it.call_function("fdtdx.core.misc.pad_fields", fld, (False, False, False))
    psi = {p.attrs["name"]: (Rat.atom(f"{p.attrs['name']}.psi1"), Rat.atom(f"{p.attrs['name']}.psi2")) for p in pmls}
    objs = sc.objects(list(pmls))
    f = ctx.index.function(f"fdtdx.core.physics.curl.{which}")
    ctx.unit(f.where())
    try:
        curl, psi_new = it.call(it.closure_of(f), [cfg, pad, psi, objs, simulate], {})
    except Raised as r:
        raise AnalysisError(f"{which} raises on the symbolic field: {r}")
    if not isinstance(curl, NdArr) or curl.shape != (3,):
        raise AnalysisError(f"{which} returned {curl!r}")
    return curl, psi_new, sc


def clean(v) -> Rat:
    return strip_pad(to_rat(v))
