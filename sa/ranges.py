"""E8 — interval / sign / monotonicity domain for the abstract interpreter.

Iv(lo, hi, dlo, dhi, kind):
  kind 'real' : a real number in [lo, hi]; (dlo, dhi) bounds its derivative with
                respect to the one designated input of the rule (None = untracked)
  kind 'imag' : i * r with r in [lo, hi]
  kind 'unit' : a complex number of modulus exactly 1
Bounds are Fractions or +-inf.  All operations over-approximate.
"""

from __future__ import annotations

import math
from fractions import Fraction

from .index import AnalysisError
from .poly import Rat
from .values import AbsVal, Builtin, SymBool

INF = math.inf


def _f(x):
    if isinstance(x, float):
        if x in (INF, -INF):
            return x
        return Fraction(repr(x))
    return Fraction(x)


def _mul(a, b):
    if a == 0 or b == 0:
        return 0
    return a * b


def _prod_bounds(a_lo, a_hi, b_lo, b_hi):
    c = [_mul(a_lo, b_lo), _mul(a_lo, b_hi), _mul(a_hi, b_lo), _mul(a_hi, b_hi)]
    return min(c), max(c)


class Iv(AbsVal):
    is_array = True

    def __init__(self, lo, hi, dlo=0, dhi=0, kind="real"):
        self.lo, self.hi = _f(lo), _f(hi)
        if self.lo > self.hi:
            raise AnalysisError(f"empty interval [{lo},{hi}]")
        self.dlo = None if dlo is None else _f(dlo)
        self.dhi = None if dhi is None else _f(dhi)
        self.kind = kind

    @staticmethod
    def const(c):
        return Iv(c, c, 0, 0)

    @staticmethod
    def lift(v):
        if isinstance(v, Iv):
            return v
        if isinstance(v, bool):
            return Iv.const(int(v))
        if isinstance(v, (int, Fraction, float)):
            return Iv.const(v)
        if isinstance(v, complex):
            if v.real == 0:
                return Iv(_f(v.imag), _f(v.imag), 0, 0, "imag")
            raise AnalysisError("general complex constant in interval domain")
        if isinstance(v, Rat):
            if v.is_const():
                return Iv.const(v.const_value())
            return _eval_rat(v)
        raise AnalysisError(f"cannot lift {v!r} to an interval")

    def __repr__(self):
        d = "" if self.dlo is None else f" d∈[{self.dlo},{self.dhi}]"
        return f"Iv<{self.kind} [{self.lo},{self.hi}]{d}>"

    def nondecreasing(self):
        return self.dlo is not None and self.dlo >= 0

    # ---------------------------------------------------------------- arith
    def _d(self):
        return (self.dlo, self.dhi) if self.dlo is not None else (-INF, INF)

    def av_unop(self, op):
        if op == "neg":
            dl, dh = self._d()
            if self.kind == "unit":
                return self
            return Iv(-self.hi, -self.lo, -dh, -dl, self.kind)
        if op == "pos":
            return self
        raise AnalysisError(f"Iv unop {op}")

    def av_binop(self, op, other, reflected):
        try:
            o = Iv.lift(other)
        except AnalysisError:
            return NotImplemented
        a, b = (o, self) if reflected else (self, o)
        if op == "add":
            return a._add(b)
        if op == "sub":
            return a._add(b.av_unop("neg"))
        if op == "mul":
            return a._mulv(b)
        if op == "div":
            return a._mulv(b._recip())
        if op == "pow":
            if b.lo == b.hi and b.kind == "real" and Fraction(b.lo).denominator == 1:
                return a._pow(int(b.lo))
            raise AnalysisError("Iv pow with non-constant exponent")
        raise AnalysisError(f"Iv binop {op}")

    def _add(self, o):
        if self.kind == "real" and o.kind == "real":
            (al, ah), (bl, bh) = self._d(), o._d()
            return Iv(self.lo + o.lo, self.hi + o.hi, al + bl, ah + bh)
        if self.kind == "imag" and o.kind == "imag":
            return Iv(self.lo + o.lo, self.hi + o.hi, None, None, "imag")
        raise AnalysisError(f"Iv add of kinds {self.kind},{o.kind}")

    def _mulv(self, o):
        if self.kind == "unit" and o.kind == "unit":
            return Iv(1, 1, None, None, "unit")
        if self.kind == "unit" or o.kind == "unit":
            raise AnalysisError("product of unit-modulus and non-unit value")
        lo, hi = _prod_bounds(self.lo, self.hi, o.lo, o.hi)
        if self.kind == "imag" and o.kind == "imag":
            return Iv(-hi, -lo, None, None, "real")
        kind = "imag" if "imag" in (self.kind, o.kind) else "real"
        if kind == "imag":
            return Iv(lo, hi, None, None, "imag")
        # product rule for the derivative
        (al, ah), (bl, bh) = self._d(), o._d()
        t1 = _prod_bounds(al, ah, o.lo, o.hi)
        t2 = _prod_bounds(bl, bh, self.lo, self.hi)
        return Iv(lo, hi, t1[0] + t2[0], t1[1] + t2[1])

    def _recip(self):
        if self.kind != "real":
            raise AnalysisError("reciprocal of non-real interval")
        if self.lo <= 0 <= self.hi:
            raise AnalysisError(f"division by an interval containing 0: {self!r}")
        lo, hi = 1 / self.hi if self.hi not in (INF, -INF) else 0, 1 / self.lo if self.lo not in (INF, -INF) else 0
        # d(1/x) = -dx/x^2
        dl, dh = self._d()
        sq = _prod_bounds(lo, hi, lo, hi)
        nd = _prod_bounds(-dh, -dl, max(sq[0], 0), sq[1])
        return Iv(min(lo, hi), max(lo, hi), nd[0], nd[1])

    def _pow(self, e: int):
        if e == 0:
            return Iv.const(1)
        if e < 0:
            return self._pow(-e)._recip()
        if self.kind != "real":
            r = self
            for _ in range(e - 1):
                r = r._mulv(self)
            return r
        if e % 2 == 0:
            m = [abs(self.lo), abs(self.hi)]
            lo = 0 if self.lo <= 0 <= self.hi else min(m) ** e
            hi = max(m) ** e if INF not in m else INF
        else:
            lo = self.lo**e if self.lo not in (INF, -INF) else self.lo
            hi = self.hi**e if self.hi not in (INF, -INF) else self.hi
        # derivative e*x^(e-1)*dx
        base = self._pow(e - 1) if e > 1 else Iv.const(1)
        dl, dh = self._d()
        d = _prod_bounds(dl, dh, _mul(e, base.lo), _mul(e, base.hi))
        return Iv(lo, hi, d[0], d[1])

    # -------------------------------------------------------------- compare
    def av_compare(self, op, other, reflected):
        o = Iv.lift(other)
        if self.kind != "real" or o.kind != "real":
            raise AnalysisError("compare of non-real interval")
        if op == "lt":
            if self.hi < o.lo:
                return True
            if self.lo >= o.hi:
                return False
        elif op == "le":
            if self.hi <= o.lo:
                return True
            if self.lo > o.hi:
                return False
        elif op == "gt":
            return o.av_compare("lt", self, False)
        elif op == "ge":
            return o.av_compare("le", self, False)
        elif op == "eq":
            if self.lo == self.hi == o.lo == o.hi:
                return True
            if self.hi < o.lo or self.lo > o.hi:
                return False
        elif op == "ne":
            r = self.av_compare("eq", other, False)
            return (not r) if isinstance(r, bool) else r.av_unop("not")
        return SymBool(("ivcmp", op, repr(self), repr(o)))

    def av_getattr(self, name):
        if name in ("astype", "reshape", "squeeze"):
            return Builtin(name, lambda it, a, k: self)
        if name == "real":
            return iv_real(self)
        raise AnalysisError(f"Iv attribute {name}")

    def av_getitem(self, idx):
        return self

    # ------------------------------------------------------------- external
    def av_ext(self, name, args, kwargs, interp=None):
        fn = IV_EXT.get(name)
        if fn is None:
            return NotImplemented
        return fn(args, kwargs)


def _eval_poly(p) -> Iv:
    from .poly import I

    total = None
    for m, c in p.t.items():
        term = Iv.const(c)
        for a, e in m:
            if a == "π":
                base = Iv(Fraction(314159, 100000), Fraction(314160, 100000))
            elif a == I:
                base = Iv(1, 1, 0, 0, "imag")
            else:
                raise AnalysisError(f"cannot lift atom {a!r} to an interval")
            term = term._mulv(base._pow(e))
        total = term if total is None else total._add(term)
    return total if total is not None else Iv.const(0)


def _eval_rat(r: Rat) -> Iv:
    n = _eval_poly(r.n)
    if r.d.is_const():
        return n._mulv(Iv.const(1 / r.d.const_value()))
    return n._mulv(_eval_poly(r.d)._recip())


def iv_real(v: Iv) -> Iv:
    if v.kind == "real":
        return v
    if v.kind == "imag":
        return Iv.const(0)
    return Iv(-1, 1, None, None)


def _exp(args, kw):
    v = Iv.lift(args[0])
    if v.kind == "imag":
        return Iv(1, 1, None, None, "unit")
    if v.kind == "unit":
        raise AnalysisError("exp of unit-modulus complex")

    def e(x, up):
        if x == -INF:
            return 0
        if x == INF:
            return INF
        if x == 0:
            return 1
        if x < 0:
            return 1 if up else 0  # coarse: exp(x) in (0,1) for x<0
        return INF if up else 1

    lo, hi = e(v.lo, False), e(v.hi, True)
    dl, dh = v._d()
    d = _prod_bounds(dl, dh, lo, hi)
    return Iv(lo, hi, d[0], d[1])


def _tanh(args, kw):
    v = Iv.lift(args[0])
    if v.kind != "real":
        raise AnalysisError("tanh of non-real")

    def t(x, up):
        if x == 0:
            return 0
        if x > 0:
            return 1 if up else 0
        return 0 if up else -1

    lo, hi = t(v.lo, False), t(v.hi, True)
    dl, dh = v._d()
    d = _prod_bounds(dl, dh, 0, 1)  # sech^2 in (0,1]
    return Iv(lo, hi, d[0], d[1])


def _clip(args, kw):
    v = Iv.lift(args[0])
    lo = args[1] if len(args) > 1 else kw.get("min", kw.get("a_min"))
    hi = args[2] if len(args) > 2 else kw.get("max", kw.get("a_max"))
    lo = Iv.lift(lo) if lo is not None else Iv.const(0)._replace_inf(-INF)
    hi = Iv.lift(hi) if hi is not None else Iv.const(0)._replace_inf(INF)
    nlo = min(max(v.lo, lo.lo), hi.hi)
    nhi = max(min(v.hi, hi.hi), lo.lo)
    dl, dh = v._d()
    return Iv(nlo, nhi, min(dl, 0), max(dh, 0))


def _replace_inf(self, x):
    return Iv(x, x, 0, 0)


Iv._replace_inf = _replace_inf


def _real(args, kw):
    return iv_real(Iv.lift(args[0]))


def _abs(args, kw):
    v = Iv.lift(args[0])
    if v.kind == "unit":
        return Iv.const(1)
    m = [abs(v.lo), abs(v.hi)]
    lo = 0 if v.lo <= 0 <= v.hi else min(m)
    return Iv(lo, max(m), None, None)


def _square(args, kw):
    return Iv.lift(args[0])._pow(2)


def _sqrt(args, kw):
    v = Iv.lift(args[0])
    if v.lo < 0:
        raise AnalysisError("sqrt of possibly negative interval")
    return Iv(0 if v.lo == 0 else 0, INF if v.hi > 1 else 1, None, None)


def _transparent(args, kw):
    return args[0]


def _cos(args, kw):
    return Iv(-1, 1, None, None)


def _where(args, kw):
    c, x, y = args
    x, y = Iv.lift(x), Iv.lift(y)
    if isinstance(c, bool):
        return x if c else y
    (al, ah), (bl, bh) = x._d(), y._d()
    return Iv(min(x.lo, y.lo), max(x.hi, y.hi), None, None)


def _minimum(args, kw):
    a, b = Iv.lift(args[0]), Iv.lift(args[1])
    (al, ah), (bl, bh) = a._d(), b._d()
    return Iv(min(a.lo, b.lo), min(a.hi, b.hi), min(al, bl), max(ah, bh))


def _maximum(args, kw):
    a, b = Iv.lift(args[0]), Iv.lift(args[1])
    (al, ah), (bl, bh) = a._d(), b._d()
    return Iv(max(a.lo, b.lo), max(a.hi, b.hi), min(al, bl), max(ah, bh))


IV_EXT = {
    "np.exp": _exp,
    "np.tanh": _tanh,
    "np.clip": _clip,
    "np.real": _real,
    "np.abs": _abs,
    "np.square": _square,
    "np.sqrt": _sqrt,
    "np.asarray": _transparent,
    "np.array": _transparent,
    "np.cos": _cos,
    "np.sin": _cos,
    "np.where": _where,
    "np.minimum": _minimum,
    "np.maximum": _maximum,
    "lax.stop_gradient": _transparent,
}
