"""E9 — obligations, verdict protocol, evidence and replay files."""

from __future__ import annotations

import json
import os
import time

from .index import AnalysisError, Index

VERIF_ROOT = os.path.dirname(os.path.dirname(os.path.abspath(__file__)))
FINDINGS_FILE = os.path.join(VERIF_ROOT, "known_findings.json")
EVIDENCE_DIR = os.environ.get("VERIF_EVIDENCE_DIR") or os.path.join(VERIF_ROOT, "evidence")


def _short(x, n=400):
    s = x if isinstance(x, str) else repr(x)
    return s if len(s) <= n else s[: n - 3] + "..."


class Obligation:
    def __init__(self, rule, construct, ok, detail, extracted, oracle, nontrivial):
        self.rule = rule
        self.construct = construct
        self.ok = ok
        self.detail = detail
        self.extracted = extracted
        self.oracle = oracle
        self.nontrivial = nontrivial

    def as_dict(self):
        return {
            "rule": self.rule,
            "construct": self.construct,
            "ok": self.ok,
            "detail": _short(self.detail, 600),
            "extracted": _short(self.extracted),
            "oracle": _short(self.oracle),
        }


class Ctx:
    def __init__(self, pid: str, tier: str, repo: str, seed: int):
        self.pid = pid
        self.tier = tier
        self.repo = repo
        self.seed = seed
        self.t0 = time.time()
        self._index: Index | None = None
        self.obligations: list[Obligation] = []
        self.notes: list[str] = []
        self.units: list[str] = []
        self.assumptions: list[str] = []
        self.trusted_base: list[str] = ["CPython ast", "sa/poly.py rational normal form", "sa/absint.py abstract interpreter"]
        self.level = "other"
        self.explanation = ""
        self.rule_text = ""
        self.selftest: dict | None = None

    @property
    def index(self) -> Index:
        if self._index is None:
            self._index = Index(self.repo)
        return self._index

    def fresh_interp(self):
        from .absint import Interp

        return Interp(self.index)

    # ------------------------------------------------------------ recording
    def ob(self, rule: str, construct: str, ok: bool, detail: str = "", extracted=None, oracle=None, nontrivial=True):
        self.obligations.append(Obligation(rule, construct, bool(ok), detail, extracted, oracle, nontrivial))
        return bool(ok)

    def unit(self, s: str):
        if s not in self.units:
            self.units.append(s)

    def note(self, s: str):
        self.notes.append(s)

    def assume(self, s: str):
        if s not in self.assumptions:
            self.assumptions.append(s)

    def require_count(self, rule: str, got: int, minimum: int):
        """Vacuity guard: fewer matched instances than confirmed by hand is an analysis error."""
        if got < minimum:
            raise AnalysisError(f"{rule}: matched {got} instances, expected at least {minimum} (vacuity guard)")

    # -------------------------------------------------------------- verdict
    def finish(self, error: str | None = None) -> int:
        findings = load_findings()
        known = {(f["property"], f["rule"], f["construct"]): f for f in findings if f.get("status") == "known"}
        failed = [o for o in self.obligations if not o.ok]
        new_violations = []
        lines = []
        seen_known = set()
        for o in failed:
            k = (self.pid, o.rule, o.construct)
            if k in known:
                if k not in seen_known:
                    seen_known.add(k)
                    lines.append(f"KNOWN-FINDING: property={self.pid} {known[k]['what']} [{o.rule} @ {o.construct}]")
            else:
                new_violations.append(o)
        replay_paths = []
        if new_violations:
            os.makedirs(os.path.join(EVIDENCE_DIR, "replay"), exist_ok=True)
            for i, o in enumerate(new_violations):
                p = os.path.join(EVIDENCE_DIR, "replay", f"{self.pid}-{i}.json")
                with open(p, "w") as f:
                    json.dump({"property": self.pid, **o.as_dict()}, f, indent=1)
                replay_paths.append(p)
        # A failed obligation is definite on its own (same atoms on both sides, different polynomials /
        # tables), so it is reported even when a later rule instance could not be analysed; an analysis
        # error alone is never a verdict.
        status = 0
        if new_violations:
            status = 1
        elif error is not None:
            status = 2
        self.write_evidence(len(new_violations), error)
        for ln in lines:
            print(ln)
        for o, p in zip(new_violations, replay_paths):
            print(f"  rule {o.rule} @ {o.construct}: {_short(o.detail, 300)}")
            print(f"    extracted: {_short(o.extracted, 300)}")
            print(f"    oracle:    {_short(o.oracle, 300)}")
            print(f"VIOLATION property={self.pid} replay={p}")
        if error is not None and new_violations:
            print(f"NOTE property={self.pid} analysis stopped early after the violations above: {error}")
        elif error is not None:
            print(f"ANALYSIS-ERROR property={self.pid} {error}")
        elif not new_violations:
            n = len(self.obligations)
            print(f"OK property={self.pid} tier={self.tier} obligations={n} discharged={n - len(failed)} known_findings={len(seen_known)} wall={time.time() - self.t0:.2f}s")
        return status

    def write_evidence(self, violations: int, error: str | None):
        os.makedirs(EVIDENCE_DIR, exist_ok=True)
        obs = self.obligations
        distinct = {(o.rule, o.construct) for o in obs if o.nontrivial}
        samples = [o.as_dict() for o in obs[:6]]
        if len(obs) > 6:
            samples += [o.as_dict() for o in obs[-2:]]
        failed = [o.as_dict() for o in obs if not o.ok]
        rules = sorted({o.rule for o in obs})
        cov = {
            "obligations": len(obs),
            "discharged": sum(1 for o in obs if o.ok),
            "evaluations": max(len(obs), 1),
            "distinct_nontrivial": len(distinct),
            "rule": self.rule_text
            or "each obligation is one (rule, construct) instance: an object extracted from the current source by the abstract interpreter / syntax-tree queries, compared with its oracle; non-trivial = the extractor matched a construct and the comparison was carried out",
            "samples": samples or [{"note": "no obligation evaluated"}],
            "checker_cmd": f"./check {self.pid} --tier {self.tier}",
            "trusted_base": self.trusted_base,
            "explanation": self.explanation or "see DESIGN.md",
            "rules": rules,
            "units_analysed": self.units[:200],
            "files": self.index.consulted if self._index is not None else {},
            "failed": failed[:20],
            "notes": self.notes[:50],
            "exhaustive": False,
        }
        if self.selftest is not None:
            cov["selftest"] = self.selftest
        if error is not None:
            cov["analysis_error"] = error
        ev = {
            "property_id": self.pid,
            "tier": self.tier,
            "seed": self.seed,
            "level": self.level,
            "coverage": cov,
            "assumptions": self.assumptions,
            "wall_s": round(time.time() - self.t0, 3),
            "violations": violations,
        }
        with open(os.path.join(EVIDENCE_DIR, f"{self.pid}.json"), "w") as f:
            json.dump(ev, f, indent=1, default=str)


def load_findings() -> list[dict]:
    if not os.path.exists(FINDINGS_FILE):
        return []
    with open(FINDINGS_FILE) as f:
        return json.load(f).get("findings", [])
