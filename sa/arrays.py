"""Small symbolic array values for rules that need shapes / element access."""

from __future__ import annotations

from .index import AnalysisError
from .poly import Rat
from .values import AbsVal, Builtin, to_rat


class SymVec(AbsVal):
    """1-D array `name` of symbolic length; element i is the atom name[i]."""

    is_array = True

    def __init__(self, name: str, length):
        self.name = name
        self.length = length

    def av_getattr(self, name):
        if name == "shape":
            return (self.length,)
        if name == "ndim":
            return 1
        if name in ("astype",):
            return Builtin(name, lambda it, a, k: self)
        if name == "dtype":
            return ("dtype-of", self.name)  # the element type of the samples is whatever the caller supplied
        raise AnalysisError(f"SymVec attribute {name}")

    def av_len(self):
        return self.length

    def av_getitem(self, idx):
        if isinstance(idx, (int, Rat)) or hasattr(idx, "numerator"):
            return Rat.atom(("idx", self.name, to_rat(idx)))
        raise AnalysisError(f"SymVec index {idx!r}")

    def av_ext(self, name, args, kwargs, interp=None):
        if name in ("np.asarray", "np.array"):
            return self
        return NotImplemented
