#!/bin/sh
# usage: mut.sh <ID> <relative file under src/fdtdx> <python-regex-or-literal old> <new>   (literal replace, first occurrence unless COUNT set)
ID=$1; F=$2; OLD=$3; NEW=$4
S=$(mktemp -d /var/tmp/mut.XXXXXX)
mkdir -p $S/src && cp -r /repo/src/fdtdx $S/src/
/venv/bin/python - "$S/src/fdtdx/$F" "$OLD" "$NEW" "${COUNT:-1}" <<'PY'
import sys
p,old,new,cnt=sys.argv[1:5]
s=open(p).read()
if old not in s: print("MUT: pattern not found"); sys.exit(3)
s=s.replace(old,new,int(cnt))
compile(s,p,'exec')
open(p,'w').write(s)
PY
[ $? -eq 0 ] || { rm -rf $S; exit 3; }
cd /verif && VERIF_EVIDENCE_DIR=$S/ev ./check $ID --repo $S ${TIER:+--tier $TIER} | tail -${LINES_OUT:-6}
echo "exit=$?"
rm -rf $S
