#!/bin/sh
# usage: confirm_bg.sh [-2] ID...   — confirm both variants of each seed in the background, log to /tmp/confirm.log
# with -2 the second-round seeds (/tmp/seed2-<ID>/{a,b}) are stored as variants c and d
cd /verif
TAG=""; [ "$1" = "-2" ] && { TAG=2; shift; }
for p in "$@"; do
  git -C /repo worktree remove --force /tmp/wt$TAG-$p 2>/dev/null
  if [ -z "$TAG" ]; then
    for v in a b; do [ -d /tmp/seed-$p/$v ] && ./confirm_seed.sh $p $v; done
  else
    [ -d /tmp/seed2-$p/a ] && ./confirm_seed.sh $p a 2 c
    [ -d /tmp/seed2-$p/b ] && ./confirm_seed.sh $p b 2 d
  fi
done >> /tmp/confirm.log 2>&1
