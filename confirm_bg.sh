#!/bin/sh
# usage: confirm_bg.sh ID...   — confirm both variants of each seed in the background, log to /tmp/confirm.log
cd /verif
for p in "$@"; do
  git -C /repo worktree remove --force /tmp/wt-$p 2>/dev/null
  for v in a b; do [ -d /tmp/seed-$p/$v ] && ./confirm_seed.sh $p $v; done
done >> /tmp/confirm.log 2>&1
