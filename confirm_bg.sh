#!/bin/sh
# usage: confirm_bg.sh [-2] ID...   — confirm both variants of each seed in the background, log to /tmp/confirm.log
# with -2 the second-round seeds (/tmp/seed2-<ID>/{a,b}) are stored as variants c and d, with -3 (/tmp/seed3-<ID>) as e and f
cd /verif
TAG=""; V1=c; V2=d
[ "$1" = "-2" ] && { TAG=2; shift; }
[ "$1" = "-3" ] && { TAG=3; V1=e; V2=f; shift; }
for p in "$@"; do
  git -C /repo worktree remove --force /tmp/wt$TAG-$p 2>/dev/null
  if [ -z "$TAG" ]; then
    for v in a b; do [ -d /tmp/seed-$p/$v ] && ./confirm_seed.sh $p $v; done
  else
    [ -d /tmp/seed$TAG-$p/a ] && ./confirm_seed.sh $p a $TAG $V1
    [ -d /tmp/seed$TAG-$p/b ] && ./confirm_seed.sh $p b $TAG $V2
  fi
done >> /tmp/confirm.log 2>&1
