#!/bin/sh
# usage: seedmatrix.sh [ID-variant ...]  — for each kept seed run the check of its own property on a scratch copy with
# the patch applied and print: seed, verdict (exit code), first rule that fired.  Output: /verif/seeded/MATRIX.txt
cd /verif
SEEDS="$@"
[ -z "$SEEDS" ] && SEEDS=$(ls seeded | grep -E '^C[0-9]+-[a-z]$')
for sd in $SEEDS; do
  ID=${sd%-*}
  P=seeded/$sd/patch.diff
  [ -f $P ] || continue
  if ! grep -q "\"property_id\": \"$ID\"" MANIFEST.json || ! jq -e ".checks[] | select(.property_id==\"$ID\")" MANIFEST.json >/dev/null; then echo "$sd not-claimed -"; continue; fi
  S=$(mktemp -d /var/tmp/sm.XXXXXX)
  mkdir -p $S/src && cp -r /repo/src/fdtdx $S/src/
  if ! patch -s -p1 -F0 -d $S < $P >/dev/null 2>&1; then echo "$sd patch-does-not-apply -"; rm -rf $S; continue; fi
  OUT=$(VERIF_EVIDENCE_DIR=$S/ev ./check $ID --repo $S 2>&1); RC=$?
  RULE=$(echo "$OUT" | grep -m1 -E "^  rule " | sed -E 's/^  rule ([^ ]+) @ ([^:]*).*/\1 @ \2/' | cut -c1-110)
  [ $RC -eq 2 ] && RULE=$(echo "$OUT" | grep -m1 ANALYSIS-ERROR | cut -c1-110)
  echo "$sd exit=$RC $RULE"
  rm -rf $S
done
